/* harness/C16_seq.c -- BOUNDED stand-ins for the list-walking functions of
 * jwks.c (property C16): keyrings of <= C16_N items (errored or not, kids
 * NULL/"a"/"b"/"ab", set error set or not) built with the REAL
 * jwks_item_add/list_add_tail, one scenario per C16_MODE, compared with an
 * array model.  Plain cbmc, --unwinding-assertions on, real malloc/free
 * (use-after-free is checked).  cbmc has no inductive list predicate: the
 * unbounded statement is out of reach; these units are labelled bounded and
 * never counted as proved.
 *   MODE 1: read-only operations (get / count / find_bykid / error_any)
 *   MODE 2: jwks_item_free(i), then another jwks_item_free(j) (index shifting)
 *   MODE 3: jwks_item_free_bad, twice
 *   MODE 4: jwks_item_free(i), then append a new item (append after removal)
 *   MODE 5: jwks_item_free_all, then jwks_free */
#ifndef C16_N
#define C16_N 3
#endif
unsigned nondet_uint(void);
_Bool nondet_bool(void);
static char *mkkid(unsigned k)
{
	if (k == 0) return NULL;
	char *s = malloc(3);
	__CPROVER_assume(s != NULL);
	s[0] = k == 2 ? 'b' : 'a'; s[1] = k == 3 ? 'b' : 0; s[2] = 0;	/* "a", "b", "ab" */
	return s;
}
static int kid_is(jwk_item_t *it, char c) { return it->kid != NULL && it->kid[0] == c && it->kid[1] == 0; }
static jwk_item_t *m[C16_N + 2]; static unsigned mn;
static jwk_item_t *mkitem(void)
{
	jwk_item_t *it = malloc(sizeof(*it));
	__CPROVER_assume(it != NULL);
	it->pem = NULL; it->oct.key = NULL; it->oct.len = 0; it->json = NULL; it->node.next = NULL; it->node.prev = NULL;
	it->provider = JWT_CRYPTO_OPS_ANY;
	it->error = nondet_bool();
	unsigned k = nondet_uint(); __CPROVER_assume(k <= 3);
	it->kid = mkkid(k);
	return it;
}
static void check_model(jwk_set_t *set)
{
	__CPROVER_assert(jwks_item_count(set) == mn, "C16: jwks_item_count is the list length");
	unsigned j = nondet_uint();	/* an arbitrary position, hence all */
	__CPROVER_assume(j <= C16_N + 1);
	__CPROVER_assert(jwks_item_get(set, j) == (j < mn ? m[j] : NULL), "C16: jwks_item_get(i) is the i-th item in load order, NULL out of range");
}
static void model_remove(unsigned idx)
{
	for (unsigned i = 0; i < C16_N + 1; i++)
		if (i >= idx && i + 1 < mn) m[i] = m[i + 1];
	mn--;
}
void h_C16_seq(void)
{
	jwk_set_t *set = jwks_new();
	__CPROVER_assume(set != NULL);
	set->error = nondet_bool();
	unsigned n = nondet_uint();
	__CPROVER_assume(n <= C16_N);
	mn = 0;
	for (unsigned i = 0; i < C16_N; i++) {
		if (i >= n) break;
		jwk_item_t *it = mkitem();
		jwks_item_add(set, it);
		m[mn++] = it;
	}
	check_model(set);
	unsigned idx = nondet_uint(), idx2 = nondet_uint();
	__CPROVER_assume(idx <= C16_N + 1 && idx2 <= C16_N + 1);
#if C16_MODE == 1
	{
		char want = idx % 3 == 0 ? 'a' : idx % 3 == 1 ? 'b' : 'c';
		char key[2] = { want, 0 };
		jwk_item_t *r = jwks_find_bykid(set, key), *exp = NULL;
		for (unsigned i = C16_N; i-- > 0;)
			if (i < mn && kid_is(m[i], want)) exp = m[i];
		__CPROVER_assert(r == exp, "C16: jwks_find_bykid returns the first item whose kid equals the argument exactly");
		unsigned bad = 0;
		for (unsigned i = 0; i < C16_N; i++)
			if (i < mn && m[i]->error) bad++;
		__CPROVER_assert(jwks_error_any(set) == (int)(set->error + bad), "C16: jwks_error_any counts the set error plus the errored items");
		/* get / count / find / error_any are reads: the list is what it was (C16, C18) */
		check_model(set);
	}
#elif C16_MODE == 2
	{
		int r = jwks_item_free(set, idx);
		__CPROVER_assert(r == (idx < mn ? 1 : 0), "C16: jwks_item_free reports 0 for an index out of range, 1 otherwise");
		if (idx < mn) model_remove(idx);
		check_model(set);
		r = jwks_item_free(set, idx2);
		__CPROVER_assert(r == (idx2 < mn ? 1 : 0), "C16: second jwks_item_free (indices shift after a removal)");
		if (idx2 < mn) model_remove(idx2);
		check_model(set);
	}
#elif C16_MODE == 3
	{
		unsigned bad = 0, w = 0;
		for (unsigned i = 0; i < C16_N; i++)
			if (i < mn) { if (m[i]->error) bad++; else m[w++] = m[i]; }
		/* a lookup BEFORE the removal (it may hit an errored item) and the same lookup AFTER it */
		char want = idx % 2 == 0 ? 'a' : 'b';
		char key[2] = { want, 0 };
		(void)jwks_find_bykid(set, key);
		int r = jwks_item_free_bad(set);
		__CPROVER_assert(r == (int)bad, "C16: jwks_item_free_bad returns the number of errored items it removed");
		mn = w;
		{
			jwk_item_t *r2 = jwks_find_bykid(set, key), *exp = NULL;
			for (unsigned i = C16_N; i-- > 0;)
				if (i < mn && kid_is(m[i], want)) exp = m[i];
			__CPROVER_assert(r2 == exp, "C16: jwks_find_bykid after jwks_item_free_bad finds the first remaining item with that kid");
		}
		check_model(set);
		__CPROVER_assert(jwks_item_free_bad(set) == 0, "C16: a repeated jwks_item_free_bad removes nothing");
		check_model(set);
	}
#elif C16_MODE == 4
	{
		int r = jwks_item_free(set, idx);
		if (r) model_remove(idx);
		jwk_item_t *it = mkitem();
		jwks_item_add(set, it);
		m[mn++] = it;
		check_model(set);
	}
#elif C16_MODE == 5
	{
		int r = jwks_item_free_all(set);
		__CPROVER_assert(r == (int)mn, "C16: jwks_item_free_all removes everything and returns the count");
		mn = 0;
		check_model(set);
		jwks_free(set);
	}
#endif
	__CPROVER_assert(0, "VERIF_REACH_END");
}
