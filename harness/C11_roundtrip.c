/* harness/C11_roundtrip.c -- COMPLETE FINITE unit: decode(encode(x)) == x through
 * the real jwt_base64uri_encode / jwt_base64uri_decode for EVERY byte string of
 * length 1..6 (two blocks, every tail), unpadded URL alphabet on the wire; and
 * rejection of foreign bytes / lengths 1 mod 4 for every text of length 1..8. */
#include "base64_c.h"
unsigned nondet_uint(void);
void h_C11_roundtrip(void)
{
#ifndef C11_MAXN
#define C11_MAXN 6
#endif
	unsigned char in[6];
	unsigned un = nondet_uint();
	__CPROVER_assume(un >= 1 && un <= C11_MAXN);
	int n = (int)un;
	char *enc = NULL;
	int el = jwt_base64uri_encode(&enc, (const char *)in, n);
	__CPROVER_assert(el == 4 * ((n + 2) / 3) && enc != NULL, "C11: encode succeeds");
	size_t sl = strlen(enc);
	__CPROVER_assert(sl == (size_t)(4 * n + 2) / 3, "C11: unpadded length ceil(4n/3)");
	for (size_t k = 0; k < 8; k++)
		if (k < sl)
			__CPROVER_assert(enc[k] != '=' && enc[k] != '+' && enc[k] != '/' && SPEC_B64_VAL(enc[k] == '-' ? '+' : enc[k] == '_' ? '/' : enc[k]) >= 0,
					 "C11: URL alphabet, no padding");
	if (n >= 3)
		__CPROVER_assert(enc[0] == SPEC_B64URL_CHAR((in[0] >> 2) & 0x3f) && enc[3] == SPEC_B64URL_CHAR(in[2] & 0x3f), "C11: url characters of block 0");
	int dl = 0;
	unsigned char *dec = jwt_base64uri_decode(enc, &dl);
	__CPROVER_assert(dec != NULL && dl == n, "C11: decode inverts encode (length)");
	for (int k = 0; k < 6; k++)
		if (k < n)
			__CPROVER_assert(dec[k] == in[k], "C11: decode inverts encode (content)");
	__CPROVER_assert(0, "VERIF_REACH_END");
}

void h_C11_reject(void)
{
	char s[9];
	unsigned n = nondet_uint();
	__CPROVER_assume(n >= 1 && n <= 8);
	s[n] = 0;
	for (unsigned k = 0; k < 8; k++)
		if (k < n) __CPROVER_assume(s[k] != 0);
	int dl = 0;
	void *dec = jwt_base64uri_decode(s, &dl);
	/* first '=' position (padding), n if none */
	unsigned p = n;
	for (unsigned k = 8; k-- > 0;)
		if (k < n && s[k] == '=') p = k;
	int foreign = 0;
	for (unsigned k = 0; k < 8; k++)
		if (k < p && SPEC_B64_VAL(s[k] == '-' ? '+' : s[k] == '_' ? '/' : s[k]) < 0) foreign = 1;
	if (n % 4 == 1)
		__CPROVER_assert(dec == NULL, "C11: length 1 modulo 4 is rejected");
	if (foreign)
		__CPROVER_assert(dec == NULL, "C11: a byte outside both alphabets ahead of padding is rejected");
	__CPROVER_assert(0, "VERIF_REACH_END");
}
