/* harness/strcmp_bounded.c -- BOUNDED stand-in for jwt_strcmp (libjwt/jwt-memory.c), robust
 * against restructuring of the function (the unbounded unit C02.jwt_strcmp_exact names its loop
 * variables and gives no verdict once they disappear): every pair of strings of length
 * <= STRCMP_N (over all byte values), plain cbmc, all loops unwound with unwinding assertions.
 * STRCMP_N = 90 covers the longest strings libjwt compares (base64url of a SHA-512 MAC: 86). */
#include <string.h>
#ifndef STRCMP_N
#define STRCMP_N 90
#endif
int jwt_strcmp(const char *str1, const char *str2);
unsigned nondet_uint(void);

void h_strcmp_bounded(void)
{
	char a[STRCMP_N + 1], b[STRCMP_N + 1];
	unsigned la = nondet_uint(), lb = nondet_uint();
	__CPROVER_assume(la <= STRCMP_N && lb <= STRCMP_N);
	a[la] = 0; b[lb] = 0;
	/* la, lb are the string lengths: no earlier terminator */
	int equal = (la == lb);
	for (unsigned i = 0; i < STRCMP_N; i++) {
		if (i < la) __CPROVER_assume(a[i] != 0);
		if (i < lb) __CPROVER_assume(b[i] != 0);
		if (i < la && i < lb && a[i] != b[i]) equal = 0;
	}
	int r = jwt_strcmp(a, b);
	__CPROVER_assert((r == 0) == equal, "C01/C02: jwt_strcmp returns 0 exactly when the two strings are equal");
	__CPROVER_assert(0, "VERIF_REACH_END");
}
