/* harness/C11_finite.c -- COMPLETE FINITE units for the codec (property C11):
 * the real functions on their whole small domains, compared with the RFC 4648
 * spec macros of contracts/base64_c.h.  Plain cbmc (no contracts): every loop
 * bound is a compile-time constant of the harness, unwound completely with
 * --unwinding-assertions, so these are exhaustive, not bounded stand-ins. */
#include "base64_c.h"
unsigned nondet_uint(void);

/* every input of length 0..3: every 3-byte block and both tails */
void h_C11_encode_blocks(void)
{
	unsigned char in[3]; char out[9];
	unsigned n = nondet_uint();
	__CPROVER_assume(n <= 3);
	unsigned r = base64_encode(in, n, out);
	__CPROVER_assert(r == SPEC_ENC_LEN(n), "C11: encoded length is 4*ceil(n/3)");
	__CPROVER_assert(out[r] == 0, "C11: terminated");
	if (n == 3)
		__CPROVER_assert(out[0] == SPEC_ENC0(in[0], in[1], in[2]) && out[1] == SPEC_ENC1(in[0], in[1], in[2]) &&
				 out[2] == SPEC_ENC2(in[0], in[1], in[2]) && out[3] == SPEC_ENC3(in[0], in[1], in[2]), "C11: full block per RFC 4648");
	if (n == 2)
		__CPROVER_assert(out[0] == SPEC_ENC0(in[0], in[1], 0) && out[1] == SPEC_ENC1(in[0], in[1], 0) &&
				 out[2] == SPEC_ENC2(in[0], in[1], 0) && out[3] == '=', "C11: 2-byte tail per RFC 4648");
	if (n == 1)
		__CPROVER_assert(out[0] == SPEC_ENC0(in[0], 0, 0) && out[1] == SPEC_ENC1(in[0], 0, 0) &&
				 out[2] == '=' && out[3] == '=', "C11: 1-byte tail per RFC 4648");
	__CPROVER_assert(0, "VERIF_REACH_END");
}

/* every 4-character group over the full byte range */
void h_C11_decode_groups(void)
{
	char in[4]; unsigned char out[4];
	unsigned r = base64_decode(in, 4, out);
	int p = in[0] == '=' ? 0 : in[1] == '=' ? 1 : in[2] == '=' ? 2 : in[3] == '=' ? 3 : 4;
	int v0 = SPEC_B64_VAL(in[0]), v1 = SPEC_B64_VAL(in[1]), v2 = SPEC_B64_VAL(in[2]), v3 = SPEC_B64_VAL(in[3]);
	int foreign = (p > 0 && v0 < 0) || (p > 1 && v1 < 0) || (p > 2 && v2 < 0) || (p > 3 && v3 < 0);
	if (foreign) {
		__CPROVER_assert(r == 0, "C11: a byte outside the alphabet ahead of padding is rejected, not partially decoded");
	} else {
		__CPROVER_assert(r == (p == 4 ? 3u : p == 3 ? 2u : p == 2 ? 1u : 0u), "C11: decoded length");
		if (p >= 2) __CPROVER_assert(out[0] == (unsigned char)((v0 << 2) | (v1 >> 4)), "C11: byte 0");
		if (p >= 3) __CPROVER_assert(out[1] == (unsigned char)(((v1 & 0xf) << 4) | (v2 >> 2)), "C11: byte 1");
		if (p == 4) __CPROVER_assert(out[2] == (unsigned char)(((v2 & 0x3) << 6) | v3), "C11: byte 2");
	}
	__CPROVER_assert(0, "VERIF_REACH_END");
}
