/* jwk_parse_c.h -- contracts for libjwt/openssl/jwk-parse.c (properties C07, C08, C09).
 * The JWK is a jansson-model object: the member under the tracked key is exact,
 * every other member is absent or of ARBITRARY JSON type on every access -- the
 * type-confusion space of C07.  For C08 the tracked key is set to one member
 * name at a time and the contract says under which OpenSSL parameter name its
 * decoded value was handed over. */
#ifndef VERIF_JWK_PARSE_C_H
#define VERIF_JWK_PARSE_C_H
#include "spec.h"
#include "jansson_model.h"
#include "jwt_memory_c.h"
#include "openssl_model.h"

extern const char *g_jwk_tracked_str; extern const void *g_jwk_tracked_bin;
extern const char *g_push_name_of_tracked, *g_pkey_type_name, *g_ec_point_curve;
extern unsigned g_push_count; extern int g_fromdata_selection, g_pem_private;
extern const char *g_dec_last_src; extern const void *g_dec_last_res; extern int g_dec_last_len;
extern size_t g_ossl_bits;
extern const void *g_ec_point_x, *g_ec_point_y;
extern int g_wf_bad, g_wf_private, g_wf_maxlen, g_ec_degree;
#define JWK_GHOSTS g_jwk_tracked_bin, g_push_name_of_tracked, g_pkey_type_name, g_ec_point_curve, g_push_count, \
	g_fromdata_selection, g_pem_private, g_ec_point_x, g_ec_point_y, g_lib_fail, g_json_version, g_json_mutations, \
	g_dec_last_src, g_dec_last_res, g_dec_last_len, g_wf_bad

/* an item as jwk_process_one hands it over: zeroed but for kty and json */
#define ITEM_BLANK(item) (__CPROVER_is_fresh(item, sizeof(*item)) && (item)->error == 0 && (item)->error_msg[0] == 0 && \
	(item)->error_msg[JWT_ERR_LEN - 1] == 0 && (item)->pem == NULL && (item)->provider_data == NULL && (item)->oct.len == 0 && \
	(item)->is_private_key == 0 && (item)->bits == 0 && (item)->provider == JWT_CRYPTO_OPS_NONE && (item)->kid == NULL && \
	(item)->alg == JWT_ALG_NONE && (item)->use == JWK_PUB_KEY_USE_NONE && (item)->key_ops == JWK_KEY_OP_NONE)
#define TRACK1(a) (g_json_key[0] == (a) && g_json_key[1] == 0)
#define TRACK2(a, b) (g_json_key[0] == (a) && g_json_key[1] == (b) && g_json_key[2] == 0)
#define TRACK3(a, b, c) (g_json_key[0] == (a) && g_json_key[1] == (b) && g_json_key[2] == (c) && g_json_key[3] == 0)
/* OSSL_PKEY_PARAM_* names (openssl/core_names.h) */
#define PN1(s, a) ((s) != NULL && (s)[0] == (a) && (s)[1] == 0)
#define PN_RSA(s, k, pos, d, end) ((s) != NULL && (s)[0] == 'r' && (s)[1] == 's' && (s)[2] == 'a' && (s)[3] == '-' && (s)[4] == (k) && (s)[pos] == (d) && (s)[end] == 0)
#define PN_PUB(s) ((s) != NULL && (s)[0] == 'p' && (s)[1] == 'u' && (s)[2] == 'b' && (s)[3] == 0)
#define PN_PRIV(s) ((s) != NULL && (s)[0] == 'p' && (s)[1] == 'r' && (s)[2] == 'i' && (s)[3] == 'v' && (s)[4] == 0)

#define REQ_JWK(jwk, item) \
__CPROVER_requires(VJ_IS_OBJECT(jwk)) \
__CPROVER_requires(VJ_TRACKED_OK(jwk, g_vj_len_a)) \
__CPROVER_requires(ITEM_BLANK(item)) \
__CPROVER_requires(__CPROVER_is_fresh(g_json_key, 8) && SHORT7(g_json_key) && g_json_key[0] != 0 && g_vj_len_c < 0x1000000) \
__CPROVER_requires(VJ_IS_STR(jwk) ==> g_jwk_tracked_str == VJ_STR(jwk)) \
__CPROVER_requires(!VJ_IS_STR(jwk) ==> g_jwk_tracked_str == NULL) \
__CPROVER_requires(g_jwk_tracked_bin == NULL && g_push_name_of_tracked == NULL && g_push_count == 0 && g_lib_fail == 0 && g_ossl_bits <= 0x100000)
#define ITEM_FRAME(item) (item)->is_private_key, (item)->provider, (item)->provider_data, (item)->bits, (item)->pem, (item)->error, \
	SPEC_ERRMSG_FRAME(item), __CPROVER_object_upto((item)->curve, 256)
/* C07 / C14: every failure is recorded on the item with a message; success yields a usable key object */
/* (stated on the item, not on the return value: jwk_process_one ignores the latter) */
#define ITEM_OK(item) ((item)->error == 0)
#define ENS_ITEM_RESULT(item) \
__CPROVER_ensures(ITEM_OK(item) ==> ((item)->provider == JWT_CRYPTO_OPS_OPENSSL && (item)->provider_data != NULL)) \
__CPROVER_ensures(!ITEM_OK(item) ==> (item)->error_msg[0] != 0) \
/* C07 / C16: an item that reports an error owns no key object (whoever frees the item later must not find a \
 * pointer to something the importer has already released) */ \
__CPROVER_ensures(!ITEM_OK(item) ==> ((item)->provider_data == NULL && (item)->pem == NULL)) \
__CPROVER_ensures((item)->error_msg[JWT_ERR_LEN - 1] == 0) \
/* C08 / C09: the size in bits is the one OpenSSL reports for the key it built */ \
__CPROVER_ensures(ITEM_OK(item) ==> (item)->bits == g_ossl_bits)

int contract_C07_openssl_process_rsa(json_t *jwk, jwk_item_t *item)
REQ_JWK(jwk, item)
__CPROVER_assigns(ITEM_FRAME(item), JWK_GHOSTS)
ENS_ITEM_RESULT(item)
/* C08: private iff the private members are there (each of d p q dp dq qi in turn) */
__CPROVER_ensures((ITEM_OK(item) && (TRACK1('d') || TRACK1('p') || TRACK1('q') || TRACK2('d', 'p') || TRACK2('d', 'q') || TRACK2('q', 'i'))) ==>
	((item->is_private_key != 0) == VJ_HAS(jwk) && (item->pem != NULL ==> g_pem_private == (item->is_private_key != 0))))
/* C08: member <-> OpenSSL parameter pairing */
__CPROVER_ensures((ITEM_OK(item) && TRACK1('n')) ==> PN1(g_push_name_of_tracked, 'n'))
__CPROVER_ensures((ITEM_OK(item) && TRACK1('e')) ==> PN1(g_push_name_of_tracked, 'e'))
__CPROVER_ensures((ITEM_OK(item) && TRACK1('d') && VJ_HAS(jwk)) ==> PN1(g_push_name_of_tracked, 'd'))
__CPROVER_ensures((ITEM_OK(item) && TRACK1('p') && VJ_HAS(jwk)) ==> PN_RSA(g_push_name_of_tracked, 'f', 10, '1', 11))
__CPROVER_ensures((ITEM_OK(item) && TRACK1('q') && VJ_HAS(jwk)) ==> PN_RSA(g_push_name_of_tracked, 'f', 10, '2', 11))
__CPROVER_ensures((ITEM_OK(item) && TRACK2('d', 'p') && VJ_HAS(jwk)) ==> PN_RSA(g_push_name_of_tracked, 'e', 12, '1', 13))
__CPROVER_ensures((ITEM_OK(item) && TRACK2('d', 'q') && VJ_HAS(jwk)) ==> PN_RSA(g_push_name_of_tracked, 'e', 12, '2', 13))
__CPROVER_ensures((ITEM_OK(item) && TRACK2('q', 'i') && VJ_HAS(jwk)) ==> PN_RSA(g_push_name_of_tracked, 'c', 15, '1', 16))
/* members that do not belong to an RSA key never reach OpenSSL */
__CPROVER_ensures((TRACK1('x') || TRACK1('y') || TRACK1('k') || TRACK3('c', 'r', 'v')) ==> g_push_name_of_tracked == NULL)
;

int contract_C07_openssl_process_ec(json_t *jwk, jwk_item_t *item)
REQ_JWK(jwk, item)
__CPROVER_assigns(ITEM_FRAME(item), JWK_GHOSTS)
ENS_ITEM_RESULT(item)
__CPROVER_ensures((ITEM_OK(item) && TRACK1('d')) ==> ((item->is_private_key != 0) == VJ_HAS(jwk) && (item->pem != NULL ==> g_pem_private == (item->is_private_key != 0))))
__CPROVER_ensures((ITEM_OK(item) && TRACK1('d') && VJ_HAS(jwk)) ==> PN_PRIV(g_push_name_of_tracked))
/* x and y become the affine coordinates of the public point, in that order */
__CPROVER_ensures((ITEM_OK(item) && TRACK1('x')) ==> (g_jwk_tracked_bin != NULL && g_ec_point_x == g_jwk_tracked_bin))
__CPROVER_ensures((ITEM_OK(item) && TRACK1('y')) ==> (g_jwk_tracked_bin != NULL && g_ec_point_y == g_jwk_tracked_bin))
__CPROVER_ensures((TRACK1('n') || TRACK1('e') || TRACK1('k') || TRACK1('p')) ==> g_push_name_of_tracked == NULL)
;

int contract_C07_openssl_process_eddsa(json_t *jwk, jwk_item_t *item)
REQ_JWK(jwk, item)
__CPROVER_assigns(ITEM_FRAME(item), JWK_GHOSTS)
ENS_ITEM_RESULT(item)
__CPROVER_ensures((ITEM_OK(item) && TRACK1('d')) ==> ((item->is_private_key != 0) == VJ_HAS(jwk) && (item->pem != NULL ==> g_pem_private == (item->is_private_key != 0))))
__CPROVER_ensures((ITEM_OK(item) && TRACK1('d') && VJ_HAS(jwk)) ==> PN_PRIV(g_push_name_of_tracked))
__CPROVER_ensures((ITEM_OK(item) && TRACK1('x') && item->is_private_key == 0) ==> PN_PUB(g_push_name_of_tracked))
__CPROVER_ensures((TRACK1('n') || TRACK1('e') || TRACK1('k') || TRACK1('y')) ==> g_push_name_of_tracked == NULL)
;

/* ===================== C08: COMPLETENESS of the importers =====================
 * "For every well-formed JWK of a supported type the imported item denotes the key": units
 * compiled with -DVERIF_WELLFORMED give the importer a JWK all of whose members are present
 * strings (private-only members present exactly for a private key) that decode to 1..g_wf_maxlen
 * octets (EC: at most the field size of the curve, x and y INDEPENDENTLY -- RFC 7518 fixed
 * width and the minimal-length encodings found in the wild are both inside).  Every way the
 * libraries can still say no is recorded: g_lib_fail (allocation, context set-up) and g_wf_bad
 * (OpenSSL refuses the material: unknown curve, point off the curve, inconsistent key, PEM not
 * written).  Unless one of them happened the import must succeed: no error, key object and PEM
 * present, private exactly when the JWK is. */
#define REQ_JWK_WF(jwk, item) \
REQ_JWK(jwk, item) \
__CPROVER_requires(g_wf_bad == 0 && (g_wf_private == 0 || g_wf_private == 1) && g_wf_maxlen >= 1 && g_wf_maxlen <= 0x10000)
#define ENS_COMPLETE(item) \
__CPROVER_ensures((g_lib_fail == 0 && g_wf_bad == 0) ==> (__CPROVER_return_value == 0 && (item)->error == 0 && (item)->error_msg[0] == 0 && \
	(item)->provider == JWT_CRYPTO_OPS_OPENSSL && (item)->provider_data != NULL && (item)->pem != NULL && \
	((item)->is_private_key != 0) == (g_wf_private != 0) && g_pem_private == g_wf_private))
#define NOT_LOOKED_UP (g_json_key[0] == 'z' && g_json_key[1] == 'z' && g_json_key[2] == 0)
int contract_C08complete_openssl_process_rsa(json_t *jwk, jwk_item_t *item)
REQ_JWK_WF(jwk, item)
__CPROVER_requires(NOT_LOOKED_UP)
__CPROVER_assigns(ITEM_FRAME(item), JWK_GHOSTS)
ENS_COMPLETE(item)
;
int contract_C08complete_openssl_process_ec(json_t *jwk, jwk_item_t *item)
REQ_JWK_WF(jwk, item)
__CPROVER_requires(NOT_LOOKED_UP)
__CPROVER_requires((g_ec_degree == 256 || g_ec_degree == 384 || g_ec_degree == 521) && g_wf_maxlen == (g_ec_degree + 7) / 8)
__CPROVER_assigns(ITEM_FRAME(item), JWK_GHOSTS)
ENS_COMPLETE(item)
;
/* OKP: the curve name is the tracked member and is one of the two RFC 8037 names */
#define CRV_IS_ED(s) (((s)[0] == 'E' && (s)[1] == 'd' && (s)[2] == '2' && (s)[3] == '5' && (s)[4] == '5' && (s)[5] == '1' && (s)[6] == '9' && (s)[7] == 0) || \
	((s)[0] == 'E' && (s)[1] == 'd' && (s)[2] == '4' && (s)[3] == '4' && (s)[4] == '8' && (s)[5] == 0))
int contract_C08complete_openssl_process_eddsa(json_t *jwk, jwk_item_t *item)
REQ_JWK_WF(jwk, item)
__CPROVER_requires(TRACK3('c', 'r', 'v') && VJ_IS_STR(jwk) && g_vj_len_a >= 7 && CRV_IS_ED(VJ_STR(jwk)))
__CPROVER_assigns(ITEM_FRAME(item), JWK_GHOSTS)
ENS_COMPLETE(item)
;
#endif
