/* jwt_crypto_ops_c.h -- contracts for libjwt/jwt-crypto-ops.c (property C12):
 * the provider is switched only on the exact name / id of a compiled-in
 * provider, and left untouched otherwise. */
#ifndef VERIF_JWT_CRYPTO_OPS_C_H
#define VERIF_JWT_CRYPTO_OPS_C_H
#include "spec.h"
#include "jwt_memory_c.h"
#define IS_OPENSSL_NAME(s) ((s)[0]=='o'&&(s)[1]=='p'&&(s)[2]=='e'&&(s)[3]=='n'&&(s)[4]=='s'&&(s)[5]=='s'&&(s)[6]=='l'&&(s)[7]==0)
#define IS_GNUTLS_NAME(s) ((s)[0]=='g'&&(s)[1]=='n'&&(s)[2]=='u'&&(s)[3]=='t'&&(s)[4]=='l'&&(s)[5]=='s'&&(s)[6]==0)
/* the file-local provider table (DFCC treats statics as arbitrary on entry; the
 * table is never assigned by any function of the file -- see their frames --
 * so its load-time content is an invariant, stated here as a precondition) */
static struct jwt_crypto_ops *jwt_ops_available[3];
#define OPS_AVAILABLE_OK (jwt_ops_available[0] == &jwt_openssl_ops && jwt_ops_available[1] == &jwt_gnutls_ops && jwt_ops_available[2] == NULL)
/* (globals are arbitrary on entry under DFCC: the two provider tables are
 * re-described; that the real tables carry these names/ids is checked by the
 * provider units) */
#define REQ_OPS_TABLES \
__CPROVER_requires(OPS_AVAILABLE_OK) \
__CPROVER_requires(__CPROVER_is_fresh(jwt_openssl_ops.name, 8) && IS_OPENSSL_NAME(jwt_openssl_ops.name) && jwt_openssl_ops.provider == JWT_CRYPTO_OPS_OPENSSL) \
__CPROVER_requires(__CPROVER_is_fresh(jwt_gnutls_ops.name, 7) && IS_GNUTLS_NAME(jwt_gnutls_ops.name) && jwt_gnutls_ops.provider == JWT_CRYPTO_OPS_GNUTLS)

int contract_C12_jwt_set_crypto_ops(const char *opname)
__CPROVER_requires(opname != NULL)
REQ_OPS_TABLES
__CPROVER_assigns(jwt_ops)
__CPROVER_ensures(__CPROVER_return_value == 0 || __CPROVER_return_value == 1)
__CPROVER_ensures(IS_OPENSSL_NAME(opname) ==> (__CPROVER_return_value == 0 && jwt_ops == &jwt_openssl_ops))
__CPROVER_ensures(IS_GNUTLS_NAME(opname) ==> (__CPROVER_return_value == 0 && jwt_ops == &jwt_gnutls_ops))
/* any other name -- near misses included -- changes nothing */
__CPROVER_ensures((!IS_OPENSSL_NAME(opname) && !IS_GNUTLS_NAME(opname)) ==> (__CPROVER_return_value == 1 && jwt_ops == __CPROVER_old(jwt_ops)))
;
int contract_C12_jwt_set_crypto_ops_t(jwt_crypto_provider_t opname)
REQ_OPS_TABLES
__CPROVER_assigns(jwt_ops)
__CPROVER_ensures(opname == JWT_CRYPTO_OPS_OPENSSL ==> (__CPROVER_return_value == 0 && jwt_ops == &jwt_openssl_ops))
__CPROVER_ensures(opname == JWT_CRYPTO_OPS_GNUTLS ==> (__CPROVER_return_value == 0 && jwt_ops == &jwt_gnutls_ops))
__CPROVER_ensures((opname != JWT_CRYPTO_OPS_OPENSSL && opname != JWT_CRYPTO_OPS_GNUTLS) ==> (__CPROVER_return_value == 1 && jwt_ops == __CPROVER_old(jwt_ops)))
;
/* load-time default: JWT_CRYPTO names a provider exactly, else the first compiled-in one */
extern const char *g_env_value;
void contract_C12_jwt_init(void)
REQ_OPS_TABLES
__CPROVER_requires(g_env_value == NULL || __CPROVER_r_ok(g_env_value, 1))
__CPROVER_assigns(jwt_ops)
__CPROVER_ensures((g_env_value != NULL && IS_GNUTLS_NAME(g_env_value)) ==> jwt_ops == &jwt_gnutls_ops)
__CPROVER_ensures(!(g_env_value != NULL && IS_GNUTLS_NAME(g_env_value)) ==> jwt_ops == &jwt_openssl_ops)
;

/* the getters report the current provider (one of the two compiled-in tables) and write nothing */
#define REQ_CUR_OPS __CPROVER_requires(jwt_ops == &jwt_openssl_ops || jwt_ops == &jwt_gnutls_ops)
const char *contract_C12_jwt_get_crypto_ops(void)
REQ_CUR_OPS __CPROVER_assigns()
__CPROVER_ensures(__CPROVER_return_value == jwt_ops->name)
;
jwt_crypto_provider_t contract_C12_jwt_get_crypto_ops_t(void)
REQ_CUR_OPS __CPROVER_assigns()
__CPROVER_ensures(__CPROVER_return_value == jwt_ops->provider)
;
int contract_C12_jwt_crypto_ops_supports_jwk(void)
REQ_CUR_OPS __CPROVER_assigns()
__CPROVER_ensures(__CPROVER_return_value == (jwt_ops->jwk_implemented ? 1 : 0))
;
#endif
