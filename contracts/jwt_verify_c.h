/* jwt_verify_c.h -- named contracts for libjwt/jwt-verify.c (and the callees
 * in other files its functions are verified against). */
#ifndef VERIF_JWT_VERIFY_C_H
#define VERIF_JWT_VERIFY_C_H
#include "spec.h"
#include "ops.h"
#include "jansson_model.h"
#include "jwt_c.h"

#ifdef VERIF_TU_JWT_VERIFY
static jwt_claims_t __verify_claims(jwt_t *jwt);
static int __check_str_claim(jwt_t *jwt, jwt_claims_t claim, char *claim_str);
static int __verify_config_post(jwt_t *jwt, const jwt_config_t *config, unsigned int sig_len);
static int jwt_parse_head(jwt_t *jwt, char *head);
static int jwt_parse_payload(jwt_t *jwt, char *payload);
static json_t *jwt_base64uri_decode_to_json(char *src);
#endif

extern time_t g_now;
/* strcmp model: the call whose FIRST argument is g_strcmp_watch is recorded */
extern const char *g_strcmp_watch, *g_strcmp_b;
extern int g_strcmp_ret;
extern unsigned g_strcmp_hits;

VERIF_OBS_DECL(now) VERIF_OBS_DECL(leeway_exp) VERIF_OBS_DECL(leeway_nbf) VERIF_OBS_DECL(claims)
VERIF_OBS_DECL(tok_has) VERIF_OBS_DECL(tok_type) VERIF_OBS_DECL(tok_int) VERIF_OBS_DECL(key0)
VERIF_OBS_DECL(cfg_alg) VERIF_OBS_DECL(key_present) VERIF_OBS_DECL(key_alg) VERIF_OBS_DECL(hdr_alg) VERIF_OBS_DECL(sig_len)

/* ---- the state __verify_claims reads ---- */
/* ranges: DESIGN section 5 (machine integers are not mathematical) */
#define C04_RANGES(ck) (g_now >= 0 && g_now <= (1L << 60) && \
	(ck)->c.exp >= -(1L << 40) && (ck)->c.exp <= (1L << 40) && \
	(ck)->c.nbf >= -(1L << 40) && (ck)->c.nbf <= (1L << 40))
/* the tracked key is a 3-character name (exp nbf iss sub aud are) */
#define KEY_IS_NAME3 (__CPROVER_is_fresh(g_json_key, 4) && g_json_key[0] != 0 && g_json_key[1] != 0 && \
		      g_json_key[2] != 0 && g_json_key[3] == 0)
#define SAME3(name) ((name)[0] == g_json_key[0] && (name)[1] == g_json_key[1] && \
		     (name)[2] == g_json_key[2] && (name)[3] == 0)

/* NOTE: one is_fresh group per requires clause -- a single large conjunction
 * with many nested is_fresh crashes cbmc 6.11 (simplify_inequality). */
#define REQ_CLAIMS_STATE(jwt) \
__CPROVER_requires(VJ_IS_DOC((jwt)->claims)) \
__CPROVER_requires(VJ_TRACKED_OK((jwt)->claims, g_vj_len_a)) \
__CPROVER_requires(__CPROVER_is_fresh((jwt)->checker, sizeof(*(jwt)->checker))) \
__CPROVER_requires(VJ_IS_OBJECT((jwt)->checker->c.payload)) \
__CPROVER_requires(VJ_TRACKED_OK((jwt)->checker->c.payload, g_vj_len_b)) \
__CPROVER_requires(KEY_IS_NAME3) \
__CPROVER_requires(C04_RANGES((jwt)->checker)) \
__CPROVER_requires(VJ_IS_STR((jwt)->checker->c.payload) ==> g_strcmp_watch == VJ_STR((jwt)->checker->c.payload)) \
__CPROVER_requires(!VJ_IS_STR((jwt)->checker->c.payload) ==> g_strcmp_watch == NULL)

#define C04_OBS(jwt) (OBS(now, g_now) && OBS(leeway_exp, (jwt)->checker->c.exp) && OBS(leeway_nbf, (jwt)->checker->c.nbf) && \
	OBS(claims, (jwt)->checker->c.claims) && OBS(key0, g_json_key[0]) && OBS(tok_has, VJ_HAS((jwt)->claims)) && \
	OBS(tok_type, VJ_HAS((jwt)->claims) ? VJ_TYPE((jwt)->claims) : -1) && \
	OBS(tok_int, VJ_HAS((jwt)->claims) ? VJ_INT((jwt)->claims) : 0))

/* ---- C04, from the property statement ----
 * exp: accepted only while exp > now - leeway; a non-integer exp is rejected
 * nbf: accepted only once nbf <= now + leeway; a non-integer nbf is rejected
 * iss/sub/aud: accepted only if present as a string equal to the expected one */
#define TOK(jwt) ((jwt)->claims)
#define CFG(jwt) ((jwt)->checker->c.payload)
#define C04_EXP_FAILS(jwt) (((jwt)->checker->c.claims & JWT_CLAIM_EXP) && VJ_HAS(TOK(jwt)) && \
	(!VJ_IS_INT(TOK(jwt)) || !((long)VJ_INT(TOK(jwt)) > g_now - (jwt)->checker->c.exp)))
#define C04_NBF_FAILS(jwt) (((jwt)->checker->c.claims & JWT_CLAIM_NBF) && VJ_HAS(TOK(jwt)) && \
	(!VJ_IS_INT(TOK(jwt)) || !((long)VJ_INT(TOK(jwt)) <= g_now + (jwt)->checker->c.nbf)))
/* string claims: the verdict is strcmp()==0 on exactly (expected, actual) */
#define C04_STR_MATCH(jwt) (VJ_IS_STR(CFG(jwt)) && VJ_IS_STR(TOK(jwt)) && \
	g_strcmp_hits >= 1 && g_strcmp_b == VJ_STR(TOK(jwt)) && g_strcmp_ret == 0)
#define C04_STR_FAILS(jwt, bit) (((jwt)->checker->c.claims & (bit)) && !C04_STR_MATCH(jwt))

/* jwt_claim_get (jwt-setget.c) as seen by the claim checks: typed read of the
 * tracked member of the token's claims */
#define DECL_C04_jwt_claim_get(NAME) \
jwt_value_error_t NAME(jwt_t *jwt, jwt_value_t *value) \
__CPROVER_requires(__CPROVER_is_fresh(jwt, sizeof(*jwt))) \
__CPROVER_requires(VJ_IS_DOC(jwt->claims)) \
__CPROVER_requires(VJ_TRACKED_OK(jwt->claims, g_vj_len_a)) \
__CPROVER_requires(KEY_IS_NAME3) \
__CPROVER_requires(__CPROVER_is_fresh(value, sizeof(*value))) \
__CPROVER_requires(__CPROVER_is_fresh(value->name, 4)) \
__CPROVER_requires(value->type == JWT_VALUE_INT || value->type == JWT_VALUE_STR) \
__CPROVER_assigns(value->error, value->int_val) \
__CPROVER_ensures(__CPROVER_return_value == value->error) \
__CPROVER_ensures(SAME3(value->name) ==> ( \
	__CPROVER_return_value == (!VJ_HAS(jwt->claims) ? JWT_VALUE_ERR_NOEXIST : \
		(value->type == JWT_VALUE_INT ? (VJ_IS_INT(jwt->claims) ? JWT_VALUE_ERR_NONE : JWT_VALUE_ERR_TYPE) \
					      : (VJ_IS_STR(jwt->claims) ? JWT_VALUE_ERR_NONE : JWT_VALUE_ERR_TYPE))))) \
__CPROVER_ensures((SAME3(value->name) && __CPROVER_return_value == JWT_VALUE_ERR_NONE && value->type == JWT_VALUE_INT) ==> \
	value->int_val == (long)VJ_INT(jwt->claims)) \
__CPROVER_ensures((SAME3(value->name) && __CPROVER_return_value == JWT_VALUE_ERR_NONE && value->type == JWT_VALUE_STR) ==> \
	value->str_val == VJ_STR(jwt->claims)) \
__CPROVER_ensures((__CPROVER_return_value == JWT_VALUE_ERR_NONE && value->type == JWT_VALUE_STR) ==> value->str_val != NULL) \
__CPROVER_ensures((!SAME3(value->name) && __CPROVER_return_value == JWT_VALUE_ERR_NONE && value->type == JWT_VALUE_STR) ==> \
	(g_vj_len_c < 0x1000000 && __CPROVER_is_fresh(value->str_val, g_vj_len_c + 1) && value->str_val[g_vj_len_c] == 0))
DECL_C04_jwt_claim_get(contract_C04_jwt_claim_get);

/* jwt_checker_claim_get (jwt-common.c): the expected iss/sub/aud string */
#define C04_NAME_OF(t) ((t) == JWT_CLAIM_ISS ? 'i' : (t) == JWT_CLAIM_SUB ? 's' : (t) == JWT_CLAIM_AUD ? 'a' : 0)
#define C04_TRACKS_TYPE(t) (((t) == JWT_CLAIM_ISS && TRACKING3('i', 's', 's')) || \
			    ((t) == JWT_CLAIM_SUB && TRACKING3('s', 'u', 'b')) || \
			    ((t) == JWT_CLAIM_AUD && TRACKING3('a', 'u', 'd')))
const char *contract_C04_jwt_checker_claim_get(jwt_checker_t *checker, jwt_claims_t type)
__CPROVER_requires(__CPROVER_is_fresh(checker, sizeof(*checker)))
__CPROVER_requires(VJ_IS_OBJECT(checker->c.payload))
__CPROVER_requires(VJ_TRACKED_OK(checker->c.payload, g_vj_len_b))
__CPROVER_requires(KEY_IS_NAME3)
__CPROVER_assigns()
__CPROVER_ensures((C04_TRACKS_TYPE(type) && VJ_IS_STR(checker->c.payload)) ==> __CPROVER_return_value == VJ_STR(checker->c.payload))
__CPROVER_ensures((C04_TRACKS_TYPE(type) && !VJ_IS_STR(checker->c.payload)) ==> __CPROVER_return_value == NULL)
__CPROVER_ensures(!(type == JWT_CLAIM_ISS || type == JWT_CLAIM_SUB || type == JWT_CLAIM_AUD) ==> __CPROVER_return_value == NULL)
/* another (untracked) claim: NULL or some valid string */
__CPROVER_ensures(C04_TRACKS_TYPE(type) || __CPROVER_return_value == NULL ||
	(g_vj_len_c < 0x1000000 && __CPROVER_is_fresh(__CPROVER_return_value, g_vj_len_c + 1) && __CPROVER_return_value[g_vj_len_c] == 0))
;

/* __check_str_claim */
int contract_C04___check_str_claim(jwt_t *jwt, jwt_claims_t claim, char *claim_str)
__CPROVER_requires(__CPROVER_is_fresh(jwt, sizeof(*jwt)))
REQ_CLAIMS_STATE(jwt)
__CPROVER_requires(__CPROVER_is_fresh(claim_str, 4))
__CPROVER_requires(g_strcmp_hits < 1000)
__CPROVER_requires((claim == JWT_CLAIM_ISS && KEY3(claim_str, 'i', 's', 's')) ||
		   (claim == JWT_CLAIM_SUB && KEY3(claim_str, 's', 'u', 'b')) ||
		   (claim == JWT_CLAIM_AUD && KEY3(claim_str, 'a', 'u', 'd')))
__CPROVER_assigns(g_strcmp_b, g_strcmp_ret, g_strcmp_hits)
__CPROVER_ensures(__CPROVER_return_value == 0 || __CPROVER_return_value == 1)
__CPROVER_ensures(C04_TRACKS_TYPE(claim) ==> ((__CPROVER_return_value != 0) == C04_STR_FAILS(jwt, claim)))
__CPROVER_ensures(!(jwt->checker->c.claims & claim) ==> __CPROVER_return_value == 0)
__CPROVER_ensures(g_strcmp_hits >= __CPROVER_old(g_strcmp_hits) && g_strcmp_hits <= __CPROVER_old(g_strcmp_hits) + 1)
__CPROVER_ensures(!C04_TRACKS_TYPE(claim) ==> (g_strcmp_b == __CPROVER_old(g_strcmp_b) &&
	g_strcmp_ret == __CPROVER_old(g_strcmp_ret) && g_strcmp_hits == __CPROVER_old(g_strcmp_hits)))
;

/* __verify_claims: the returned mask, clause by clause */
#define DECL___verify_claims(NAME) \
jwt_claims_t NAME(jwt_t *jwt) \
__CPROVER_requires(__CPROVER_is_fresh(jwt, sizeof(*jwt))) \
REQ_CLAIMS_STATE(jwt) \
__CPROVER_requires(g_strcmp_hits == 0) \
__CPROVER_requires(C04_OBS(jwt)) \
__CPROVER_assigns(g_strcmp_b, g_strcmp_ret, g_strcmp_hits) \
__CPROVER_ensures(TRACKING3('e', 'x', 'p') ==> (((__CPROVER_return_value & JWT_CLAIM_EXP) != 0) == C04_EXP_FAILS(jwt))) \
__CPROVER_ensures(TRACKING3('n', 'b', 'f') ==> (((__CPROVER_return_value & JWT_CLAIM_NBF) != 0) == C04_NBF_FAILS(jwt))) \
__CPROVER_ensures(TRACKING3('i', 's', 's') ==> (((__CPROVER_return_value & JWT_CLAIM_ISS) != 0) == C04_STR_FAILS(jwt, JWT_CLAIM_ISS))) \
__CPROVER_ensures(TRACKING3('s', 'u', 'b') ==> (((__CPROVER_return_value & JWT_CLAIM_SUB) != 0) == C04_STR_FAILS(jwt, JWT_CLAIM_SUB))) \
__CPROVER_ensures(TRACKING3('a', 'u', 'd') ==> (((__CPROVER_return_value & JWT_CLAIM_AUD) != 0) == C04_STR_FAILS(jwt, JWT_CLAIM_AUD))) \
/* a check that is switched off never fails */ \
__CPROVER_ensures((__CPROVER_return_value & ~jwt->checker->c.claims) == 0)
DECL___verify_claims(contract_C04___verify_claims);

/* any tracked claim that fails by the statement */
#define C04_TRACKED_FAILS(jwt) ( \
	(TRACKING3('e', 'x', 'p') && C04_EXP_FAILS(jwt)) || (TRACKING3('n', 'b', 'f') && C04_NBF_FAILS(jwt)) || \
	(TRACKING3('i', 's', 's') && C04_STR_FAILS(jwt, JWT_CLAIM_ISS)) || \
	(TRACKING3('s', 'u', 'b') && C04_STR_FAILS(jwt, JWT_CLAIM_SUB)) || \
	(TRACKING3('a', 'u', 'd') && C04_STR_FAILS(jwt, JWT_CLAIM_AUD)))

/* ---- __verify_config_post: policy decision after parsing and callback ---- */
#define CFG_OK(config) (__CPROVER_is_fresh(config, sizeof(*config)) && \
	((config)->key == NULL || __CPROVER_is_fresh((config)->key, sizeof(*(config)->key))))
#define VCP_OBS(jwt, config, SL) (OBS(cfg_alg, (config)->alg) && OBS(key_present, (config)->key != NULL) && \
	OBS(key_alg, (config)->key ? (config)->key->alg : -1) && OBS(hdr_alg, (jwt)->alg) && OBS(sig_len, SL))

#define DECL___verify_config_post(NAME, CLAUSES) \
int NAME(jwt_t *jwt, const jwt_config_t *config, unsigned int sig_len) \
__CPROVER_requires(__CPROVER_is_fresh(jwt, sizeof(*jwt))) \
REQ_CLAIMS_STATE(jwt) \
__CPROVER_requires(g_strcmp_hits == 0) \
__CPROVER_requires(CFG_OK(config)) \
/* type invariant of jwt_alg_t values (0 .. JWT_ALG_INVAL) */ \
__CPROVER_requires(SPEC_ALG_IN_ENUM(jwt->alg) && SPEC_ALG_IN_ENUM(config->alg) && \
	(config->key == NULL || SPEC_ALG_IN_ENUM(config->key->alg))) \
__CPROVER_requires(SPEC_ERRMSG_TERMINATED(jwt)) \
__CPROVER_requires(C04_OBS(jwt) && VCP_OBS(jwt, config, sig_len)) \
__CPROVER_assigns(jwt->error, SPEC_ERRMSG_FRAME(jwt), g_strcmp_b, g_strcmp_ret, g_strcmp_hits) \
__CPROVER_ensures(__CPROVER_return_value == 0 || __CPROVER_return_value == 1) \
__CPROVER_ensures(SPEC_ERRMSG_TERMINATED(jwt)) \
SPEC_ERR_MONOTONE(jwt) \
CLAUSES

/* C02: a signed token is let through to signature verification only with a
 * key and with the header algorithm equal to the pinned one */
#define C02_VCP_CLAUSES \
__CPROVER_ensures((__CPROVER_return_value == 0 && sig_len > 0) ==> \
	(config->key != NULL && jwt->alg != JWT_ALG_NONE && \
	 SPEC_IS_PINNED(jwt->alg, config->alg, 1, config->key->alg)))
/* C03: unsigned tokens pass only when neither key nor algorithm is configured */
#define C03_VCP_CLAUSES \
__CPROVER_ensures((__CPROVER_return_value == 0 && sig_len == 0) ==> \
	(config->key == NULL && config->alg == JWT_ALG_NONE && jwt->alg == JWT_ALG_NONE)) \
__CPROVER_ensures((sig_len > 0 && (jwt->alg == JWT_ALG_NONE || config->key == NULL)) ==> __CPROVER_return_value != 0)
/* C04: claims are evaluated first; a failing claim fails the token whatever
 * the signature situation is */
#define C04_VCP_CLAUSES \
__CPROVER_ensures(C04_TRACKED_FAILS(jwt) ==> __CPROVER_return_value != 0)
/* C14: every refusal sets the flag and leaves a message; acceptance touches neither */
#define C14_VCP_CLAUSES \
__CPROVER_ensures(__CPROVER_return_value != 0 ==> (jwt->error == 1 && jwt->error_msg[0] != 0)) \
__CPROVER_ensures(__CPROVER_return_value == 0 ==> jwt->error == __CPROVER_old(jwt->error))

DECL___verify_config_post(contract_C02___verify_config_post, C02_VCP_CLAUSES);
DECL___verify_config_post(contract_C03___verify_config_post, C03_VCP_CLAUSES);
DECL___verify_config_post(contract_C04___verify_config_post, C04_VCP_CLAUSES);
DECL___verify_config_post(contract_C14___verify_config_post, C14_VCP_CLAUSES);
/* the conjunction, used by callers */
DECL___verify_config_post(contract_all___verify_config_post, C02_VCP_CLAUSES C03_VCP_CLAUSES C04_VCP_CLAUSES C14_VCP_CLAUSES);

/* ================= jwt_verify_complete: policy, then signature =========== */
#define VC_SIGNED(token, payload_len) ((token)[(size_t)(payload_len) + 1] != 0)
#define VC_ACCEPTED(jwt) (__CPROVER_old((jwt)->error) == 0 && (jwt)->error == 0)
#define DECL_jwt_verify_complete(NAME, CLAUSES) \
jwt_t *NAME(jwt_t *jwt, const jwt_config_t *config, const char *token, unsigned int payload_len) \
__CPROVER_requires(__CPROVER_is_fresh(jwt, sizeof(*jwt))) \
REQ_CLAIMS_STATE(jwt) \
__CPROVER_requires(g_strcmp_hits == 0) \
__CPROVER_requires(CFG_OK(config)) \
__CPROVER_requires(SPEC_ALG_IN_ENUM(jwt->alg) && SPEC_ALG_IN_ENUM(config->alg) && \
	(config->key == NULL || (SPEC_ALG_IN_ENUM(config->key->alg) && config->key->bits <= 0x7fffffff))) \
__CPROVER_requires(SPEC_ERRMSG_TERMINATED(jwt)) \
__CPROVER_requires(token != NULL && payload_len < 0x7ffffff0 && __CPROVER_r_ok(token, (size_t)payload_len + 2)) \
__CPROVER_requires(OPS_TABLE_OBEYS(all)) \
__CPROVER_requires(config->key == NULL || ITEM_WF(config->key)) \
__CPROVER_requires(C04_OBS(jwt) && VCP_OBS(jwt, config, VC_SIGNED(token, payload_len))) \
__CPROVER_assigns(jwt->error, SPEC_ERRMSG_FRAME(jwt), jwt->key, g_strcmp_b, g_strcmp_ret, g_strcmp_hits, OPS_GHOST_ASSIGNS) \
__CPROVER_ensures(__CPROVER_return_value == jwt) \
__CPROVER_ensures(SPEC_ERRMSG_TERMINATED(jwt)) \
SPEC_ERR_MONOTONE(jwt) \
CLAUSES
/* C01: a signed token is accepted only if a primitive vouched for the
 * configured key, the header's algorithm, and exactly token[0 .. payload_len) */
#define C01_VC_CLAUSES \
__CPROVER_ensures((VC_ACCEPTED(jwt) && VC_SIGNED(token, payload_len)) ==> ( \
	config->key != NULL && jwt->key == config->key && SPEC_IS_SIGNING(jwt->alg) && \
	(SPEC_IS_HS(jwt->alg) ? C01_MAC_EXACTLY(jwt, token, payload_len) : \
	 (g_ver_valid == 1 && OPS_KEYMAT_OF(jwt, g_ver_keymat) && g_ver_data == (const void *)token && \
	  g_ver_len == payload_len && g_ver_hash == SPEC_HASH_BITS(jwt->alg) && g_ver_pss == SPEC_IS_PS(jwt->alg) && \
	  g_ver_family == (int)SPEC_KTY_FOR(jwt->alg)))))
#define C02_VC_CLAUSES \
__CPROVER_ensures((VC_ACCEPTED(jwt) && VC_SIGNED(token, payload_len)) ==> ( \
	config->key != NULL && jwt->alg != JWT_ALG_NONE && SPEC_IS_PINNED(jwt->alg, config->alg, 1, config->key->alg) && \
	jwt->key->kty == SPEC_KTY_FOR(jwt->alg)))
#define C03_VC_CLAUSES \
__CPROVER_ensures((VC_ACCEPTED(jwt) && !VC_SIGNED(token, payload_len)) ==> \
	(config->key == NULL && config->alg == JWT_ALG_NONE && jwt->alg == JWT_ALG_NONE)) \
__CPROVER_ensures((VC_SIGNED(token, payload_len) && (jwt->alg == JWT_ALG_NONE || config->key == NULL)) ==> jwt->error != 0)
#define C04_VC_CLAUSES \
__CPROVER_ensures(C04_TRACKED_FAILS(jwt) ==> jwt->error != 0)
#define C09_VC_CLAUSES \
__CPROVER_ensures((VC_ACCEPTED(jwt) && VC_SIGNED(token, payload_len)) ==> C09_FLOOR_OK(jwt))
#define C14_VC_CLAUSES \
__CPROVER_ensures(jwt->error != 0 ==> (jwt->error_msg[0] != 0 || __CPROVER_old(jwt->error) != 0))
DECL_jwt_verify_complete(contract_C01_jwt_verify_complete, C01_VC_CLAUSES);
DECL_jwt_verify_complete(contract_C02_jwt_verify_complete, C02_VC_CLAUSES);
DECL_jwt_verify_complete(contract_C03_jwt_verify_complete, C03_VC_CLAUSES);
DECL_jwt_verify_complete(contract_C04_jwt_verify_complete, C04_VC_CLAUSES);
DECL_jwt_verify_complete(contract_C09_jwt_verify_complete, C09_VC_CLAUSES);
DECL_jwt_verify_complete(contract_C14_jwt_verify_complete, C14_VC_CLAUSES);
DECL_jwt_verify_complete(contract_all_jwt_verify_complete, C01_VC_CLAUSES C02_VC_CLAUSES C03_VC_CLAUSES C04_VC_CLAUSES C09_VC_CLAUSES C14_VC_CLAUSES);

/* ======================= token parsing ================================== */
/* a document as json_loads returns it: a fresh object or array with one
 * reference; its tracked member (if any) is a fresh node of any type */
#define ENS_FRESH_DOC(p) \
__CPROVER_ensures((p) == NULL || (__CPROVER_is_fresh(p, sizeof(json_t)) && (p)->refcount == 1 && \
	((p)->type == JSON_OBJECT || (p)->type == JSON_ARRAY))) \
__CPROVER_ensures((p) == NULL || (p)->tracked == NULL || ((p)->type == JSON_OBJECT && \
	__CPROVER_is_fresh((p)->tracked, sizeof(json_t)) && (p)->tracked->refcount == 1 && (p)->tracked->tracked == NULL && \
	(p)->tracked->type >= JSON_OBJECT && (p)->tracked->type <= JSON_NULL)) \
__CPROVER_ensures((p) == NULL || (p)->tracked == NULL || (p)->tracked->type != JSON_STRING || \
	(__CPROVER_is_fresh((p)->tracked->sval, g_vj_len_c + 1) && (p)->tracked->sval[g_vj_len_c] == 0))
/* an empty object with one reference, as jwt_new() makes them */
#define EMPTY_OBJ(p) (__CPROVER_is_fresh(p, sizeof(json_t)) && (p)->type == JSON_OBJECT && (p)->refcount == 1 && (p)->tracked == NULL)
#define TRACKING_ALG KEY3(g_json_key, 'a', 'l', 'g')

#define COMMA ,
#ifdef VERIF_TU_JWT_VERIFY
json_t *contract_jwt_base64uri_decode_to_json(char *src)
__CPROVER_requires(src != NULL && __CPROVER_r_ok(src, 1))
__CPROVER_requires(g_vj_len_c < 0x1000000)
__CPROVER_assigns(JSON_LOAD_GHOSTS)
ENS_FRESH_DOC(__CPROVER_return_value)
/* C04: the JSON is decoded without NUL / duplicate tolerance flags */
__CPROVER_ensures(__CPROVER_return_value != NULL ==> g_json_loads_flags == 0)
;

#define DECL_jwt_parse_head(NAME, CLAUSES) \
int NAME(jwt_t *jwt, char *head) \
__CPROVER_requires(__CPROVER_is_fresh(jwt, sizeof(*jwt))) \
__CPROVER_requires(jwt->headers == NULL || EMPTY_OBJ(jwt->headers)) \
__CPROVER_requires(head != NULL && __CPROVER_r_ok(head, 1)) \
__CPROVER_requires(g_vj_len_c < 0x1000000 && KEY_IS_NAME3) \
__CPROVER_requires(SPEC_ERRMSG_TERMINATED(jwt)) \
__CPROVER_assigns(jwt->headers, jwt->alg, jwt->error, SPEC_ERRMSG_FRAME(jwt), JSON_LOAD_GHOSTS; \
		  jwt->headers != NULL: __CPROVER_object_whole(jwt->headers)) \
__CPROVER_frees(jwt->headers) \
__CPROVER_ensures(__CPROVER_return_value == 0 || __CPROVER_return_value == 1) \
ENS_FRESH_DOC(jwt->headers) \
__CPROVER_ensures(__CPROVER_return_value == 0 ==> jwt->headers != NULL) \
__CPROVER_ensures(SPEC_ERRMSG_TERMINATED(jwt)) \
SPEC_ERR_MONOTONE(jwt) \
CLAUSES
/* C02/C06: success only for a JSON object whose "alg" is a string naming a known algorithm, exactly */
#define C02_PH_CLAUSES \
__CPROVER_ensures(__CPROVER_return_value == 0 ==> (jwt->headers->type == JSON_OBJECT && SPEC_ALG_KNOWN(jwt->alg))) \
__CPROVER_ensures((__CPROVER_return_value == 0 && TRACKING_ALG) ==> \
	(VJ_IS_STR(jwt->headers) && SPEC_NAME_IS(VJ_STR(jwt->headers), jwt->alg)))
/* C14: every refusal is flagged and explained */
#define C14_PH_CLAUSES \
__CPROVER_ensures(__CPROVER_return_value != 0 ==> (jwt->error == 1 && jwt->error_msg[0] != 0)) \
__CPROVER_ensures(__CPROVER_return_value == 0 ==> jwt->error == __CPROVER_old(jwt->error))
DECL_jwt_parse_head(contract_C02_jwt_parse_head, C02_PH_CLAUSES);
DECL_jwt_parse_head(contract_C14_jwt_parse_head, C14_PH_CLAUSES);
DECL_jwt_parse_head(contract_all_jwt_parse_head, C02_PH_CLAUSES C14_PH_CLAUSES);

#define DECL_jwt_parse_payload(NAME, CLAUSES) \
int NAME(jwt_t *jwt, char *payload) \
__CPROVER_requires(__CPROVER_is_fresh(jwt, sizeof(*jwt))) \
__CPROVER_requires(jwt->claims == NULL || EMPTY_OBJ(jwt->claims)) \
__CPROVER_requires(payload != NULL && __CPROVER_r_ok(payload, 1)) \
__CPROVER_requires(g_vj_len_c < 0x1000000) \
__CPROVER_requires(SPEC_ERRMSG_TERMINATED(jwt)) \
__CPROVER_assigns(jwt->claims, jwt->error, SPEC_ERRMSG_FRAME(jwt), JSON_LOAD_GHOSTS; \
		  jwt->claims != NULL: __CPROVER_object_whole(jwt->claims)) \
__CPROVER_frees(jwt->claims) \
__CPROVER_ensures(__CPROVER_return_value == 0 || __CPROVER_return_value == 1) \
ENS_FRESH_DOC(jwt->claims) \
__CPROVER_ensures(__CPROVER_return_value == 0 ==> jwt->claims != NULL) \
__CPROVER_ensures(SPEC_ERRMSG_TERMINATED(jwt)) \
SPEC_ERR_MONOTONE(jwt) \
CLAUSES
DECL_jwt_parse_payload(contract_C14_jwt_parse_payload, C14_PH_CLAUSES);
DECL_jwt_parse_payload(contract_all_jwt_parse_payload, C14_PH_CLAUSES);

/* jwt_parse: copy the token once, split the copy at the first two dots, parse header and
 * payload.  (C06, C14, C02 clauses; this is the contract stubs/verify_top.c's abstract body
 * mirrors.)  "for every index k" facts use the ghost index g_str_k (stubs/libc.c), chosen
 * arbitrarily before the call: the clause holds for that k, hence for all. */
/* What jwt_parse needs to know about its two callees (both are verified against their full
 * contracts above by their own units; the full contracts' fresh-document clauses make the
 * jwt_parse unit intractable in replace mode, so the calls are RECORDED instead: which
 * argument, how often, with what result). */
extern unsigned g_ph_calls, g_pp_calls; extern int g_ph_ret, g_pp_ret; extern const char *g_ph_arg, *g_pp_arg;
#define DECL_parse_rec(NAME, ARGNAME, DOCP, CALLS, RET, ARG, EXTRA_ASSIGNS, EXTRA) \
int NAME(jwt_t *jwt, char *ARGNAME) \
__CPROVER_requires(__CPROVER_rw_ok(jwt, sizeof(*jwt))) \
__CPROVER_requires(DOCP == NULL || (__CPROVER_r_ok(DOCP, sizeof(json_t)) && DOCP->type == JSON_OBJECT && DOCP->refcount == 1 && DOCP->tracked == NULL)) \
__CPROVER_requires(ARGNAME != NULL && __CPROVER_r_ok(ARGNAME, 1)) \
__CPROVER_requires(g_vj_len_c < 0x1000000 && KEY_IS_NAME3) \
__CPROVER_requires(SPEC_ERRMSG_TERMINATED(jwt)) \
__CPROVER_assigns(EXTRA_ASSIGNS, jwt->error, SPEC_ERRMSG_FRAME(jwt), JSON_LOAD_GHOSTS, CALLS, RET, ARG) \
__CPROVER_ensures(__CPROVER_return_value == 0 || __CPROVER_return_value == 1) \
__CPROVER_ensures(CALLS == __CPROVER_old(CALLS) + 1 && RET == __CPROVER_return_value && ARG == ARGNAME) \
__CPROVER_ensures(SPEC_ERRMSG_TERMINATED(jwt)) \
SPEC_ERR_MONOTONE(jwt) \
C14_PH_CLAUSES \
EXTRA
DECL_parse_rec(contract_rec_jwt_parse_head, head, jwt->headers, g_ph_calls, g_ph_ret, g_ph_arg, jwt->headers COMMA jwt->alg,
	__CPROVER_ensures(__CPROVER_return_value == 0 ==> (jwt->headers != NULL && SPEC_ALG_KNOWN(jwt->alg))));
DECL_parse_rec(contract_rec_jwt_parse_payload, payload, jwt->claims, g_pp_calls, g_pp_ret, g_pp_arg, jwt->claims,
	__CPROVER_ensures(__CPROVER_return_value == 0 ==> jwt->claims != NULL));

int contract_all_jwt_parse(jwt_t *jwt, const char *token, unsigned int *len)
__CPROVER_requires(__CPROVER_is_fresh(jwt, sizeof(*jwt)))
__CPROVER_requires(token != NULL && __CPROVER_r_ok(token, 1))
__CPROVER_requires(__CPROVER_is_fresh(len, sizeof(*len)))
__CPROVER_requires(g_vj_len_c < 0x1000000 && KEY_IS_NAME3)
__CPROVER_requires(SPEC_ERRMSG_TERMINATED(jwt))
__CPROVER_requires(g_ph_calls == 0 && g_pp_calls == 0)
__CPROVER_requires(jwt->headers == NULL || EMPTY_OBJ(jwt->headers))
__CPROVER_requires(jwt->claims == NULL || EMPTY_OBJ(jwt->claims))
__CPROVER_assigns(*len, jwt->headers, jwt->claims, jwt->alg, jwt->error, SPEC_ERRMSG_FRAME(jwt), JSON_LOAD_GHOSTS, g_last_strlen,
		  g_ph_calls, g_ph_ret, g_ph_arg, g_pp_calls, g_pp_ret, g_pp_arg)
__CPROVER_ensures(__CPROVER_return_value == 0 || __CPROVER_return_value == 1)
/* C14 */
__CPROVER_ensures(__CPROVER_return_value != 0 ==> (jwt->error == 1 && jwt->error_msg[0] != 0))
__CPROVER_ensures(__CPROVER_return_value == 0 ==> jwt->error == __CPROVER_old(jwt->error))
__CPROVER_ensures(SPEC_ERRMSG_TERMINATED(jwt))
SPEC_ERR_MONOTONE(jwt)
/* C06/C02: success only after jwt_parse_head and jwt_parse_payload each ran once and succeeded
 * (their contracts: header is an object naming a known algorithm exactly; payload is a document) */
__CPROVER_ensures(__CPROVER_return_value == 0 ==> (g_ph_calls == 1 && g_ph_ret == 0 && g_pp_calls == 1 && g_pp_ret == 0 &&
	jwt->headers != NULL && SPEC_ALG_KNOWN(jwt->alg) && jwt->claims != NULL))
/* the payload text handed on starts right after the first dot of the copy, and the header text at its start */
__CPROVER_ensures(__CPROVER_return_value == 0 ==> (__CPROVER_same_object(g_ph_arg, g_pp_arg) && g_pp_arg > g_ph_arg && g_pp_arg - g_ph_arg <= (long)*len))
/* C06/C01: the split point is a dot of the caller's token, not its first character, and the
 * signature part after it lies inside the token */
__CPROVER_ensures(__CPROVER_return_value == 0 ==> (*len >= 1 && __CPROVER_r_ok(token, (size_t)*len + 2)))
__CPROVER_ensures((__CPROVER_return_value == 0 && (size_t)*len == g_str_k) ==> token[g_str_k] == '.')
;
#endif

#endif
