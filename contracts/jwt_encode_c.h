/* jwt_encode_c.h -- contracts for libjwt/jwt-encode.c (properties C03, C05, C10, C06) */
#ifndef VERIF_JWT_ENCODE_C_H
#define VERIF_JWT_ENCODE_C_H
#include "spec.h"
#include "jansson_model.h"
#include "jwt_setget_c.h"
#include "jwt_c.h"
#ifdef VERIF_TU_JWT_ENCODE
static int jwt_encode(jwt_t *jwt, char **out);
static int write_js(const json_t *js, char **buf);
#endif
extern const char *g_cpy_dst, *g_cpy_src; extern unsigned g_cat_calls; extern const char *g_cat_dst[3], *g_cat_src[3];
extern const char *g_spf_dst, *g_spf_a, *g_spf_b, *g_spf_c;
extern unsigned g_js_calls; extern const char *g_js_str; extern unsigned g_js_len; extern jwt_alg_t g_js_alg; extern int g_js_ret;
extern size_t g_len_cpy, g_len_cat[3];
extern const char *reg_p[8]; extern size_t reg_n[8]; extern unsigned reg_cnt;
#define ENC_GHOSTS g_cpy_dst, g_cpy_src, g_cat_calls, __CPROVER_object_whole(g_cat_dst), __CPROVER_object_whole(g_cat_src), g_spf_dst, g_spf_a, g_spf_b, \
	g_spf_c, g_js_calls, g_js_str, g_js_len, g_js_alg, g_js_ret, g_len_cpy, __CPROVER_object_whole(g_len_cat), g_json_dumps_flags, \
	__CPROVER_object_whole(reg_p), __CPROVER_object_whole(reg_n), reg_cnt

/* jwt_encode: header "." payload "." signature.
 * C03: alg none  -> jwt_sign is not called and the token ends in a bare dot;
 *      otherwise -> jwt_sign ran exactly once and succeeded.
 * C05: the bytes handed to jwt_sign are the buffer built as  head "." payload , and the very
 *      same head and payload strings are what is emitted before the second dot.
 * C10: both JSON dumps use JSON_SORT_KEYS | JSON_COMPACT.
 * C06: every copy fits its destination (assertions of the strcpy/strcat/sprintf models). */
int contract_C10_jwt_encode(jwt_t *jwt, char **out)
__CPROVER_requires(__CPROVER_is_fresh(jwt, sizeof(*jwt)) && SPEC_ERRMSG_TERMINATED(jwt))
__CPROVER_requires(jwt->headers == NULL || (__CPROVER_is_fresh(jwt->headers, sizeof(json_t)) && jwt->headers->type == JSON_OBJECT))
__CPROVER_requires(jwt->claims == NULL || (__CPROVER_is_fresh(jwt->claims, sizeof(json_t)) && (jwt->claims->type == JSON_OBJECT || jwt->claims->type == JSON_ARRAY)))
__CPROVER_requires(out == NULL || __CPROVER_w_ok(out, sizeof(*out)))
__CPROVER_requires(g_cat_calls == 0 && g_js_calls == 0 && g_spf_dst == NULL && reg_cnt == 0)
__CPROVER_assigns(out != NULL: *out; jwt->error, SPEC_ERRMSG_FRAME(jwt), ENC_GHOSTS)
__CPROVER_ensures(__CPROVER_return_value == 0 ==> (out != NULL && *out != NULL))
__CPROVER_ensures((__CPROVER_return_value == 0 && jwt->alg == JWT_ALG_NONE) ==> (g_js_calls == 0 && g_cat_calls == 3 &&
	*out == g_cpy_dst && g_cat_dst[2] == g_cpy_dst && g_cat_src[2][0] == '.' && g_cat_src[2][1] == 0))
__CPROVER_ensures((__CPROVER_return_value == 0 && jwt->alg != JWT_ALG_NONE) ==> (g_js_calls == 1 && g_js_ret == 0 && g_js_alg == jwt->alg &&
	g_cat_calls == 2 && g_js_str == g_cpy_dst && g_cat_dst[0] == g_cpy_dst && g_cat_dst[1] == g_cpy_dst &&
	g_cat_src[0][0] == '.' && g_cat_src[0][1] == 0 && (size_t)g_js_len == g_len_cpy + 1 + g_len_cat[1] &&
	*out == g_spf_dst && g_spf_a == g_cpy_src && g_spf_b == g_cat_src[1]))
__CPROVER_ensures(__CPROVER_return_value == 0 ==> g_json_dumps_flags == (JSON_SORT_KEYS | JSON_COMPACT))
__CPROVER_ensures(SPEC_ERRMSG_TERMINATED(jwt))
;
#endif
