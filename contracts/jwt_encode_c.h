/* jwt_encode_c.h -- contracts for libjwt/jwt-encode.c (properties C03, C05, C10, C06) */
#ifndef VERIF_JWT_ENCODE_C_H
#define VERIF_JWT_ENCODE_C_H
#include "spec.h"
#include "jansson_model.h"
#include "jwt_setget_c.h"
#include "jwt_c.h"
extern char *g_enc_out; extern int g_enc_rc;
#ifdef VERIF_TU_JWT_ENCODE
static int jwt_encode(jwt_t *jwt, char **out);
static int write_js(const json_t *js, char **buf);
#endif
extern const char *g_cpy_dst, *g_cpy_src; extern unsigned g_cat_calls; extern const char *g_cat_dst[3], *g_cat_src[3];
extern const char *g_spf_dst, *g_spf_a, *g_spf_b, *g_spf_c;
extern unsigned g_js_calls; extern const char *g_js_str; extern unsigned g_js_len; extern jwt_alg_t g_js_alg; extern int g_js_ret;
extern size_t g_len_cpy, g_len_cat[3];
extern const char *reg_p[8]; extern size_t reg_n[8]; extern unsigned reg_cnt;
#define ENC_GHOSTS g_cpy_dst, g_cpy_src, g_cat_calls, __CPROVER_object_whole(g_cat_dst), __CPROVER_object_whole(g_cat_src), g_spf_dst, g_spf_a, g_spf_b, \
	g_spf_c, g_js_calls, g_js_str, g_js_len, g_js_alg, g_js_ret, g_len_cpy, __CPROVER_object_whole(g_len_cat), g_json_dumps_flags, g_json_dumped, \
	__CPROVER_object_whole(reg_p), __CPROVER_object_whole(reg_n), reg_cnt

/* jwt_encode: header "." payload "." signature.
 * C03: alg none  -> jwt_sign is not called and the token ends in a bare dot;
 *      otherwise -> jwt_sign ran exactly once and succeeded.
 * C05: the bytes handed to jwt_sign are the buffer built as  head "." payload , and the very
 *      same head and payload strings are what is emitted before the second dot.
 * C10: both JSON dumps use JSON_SORT_KEYS | JSON_COMPACT.
 * C06: every copy fits its destination (assertions of the strcpy/strcat/sprintf models). */
int contract_C10_jwt_encode(jwt_t *jwt, char **out)
__CPROVER_requires(__CPROVER_is_fresh(jwt, sizeof(*jwt)) && SPEC_ERRMSG_TERMINATED(jwt))
__CPROVER_requires(jwt->headers == NULL || (__CPROVER_is_fresh(jwt->headers, sizeof(json_t)) && jwt->headers->type == JSON_OBJECT))
__CPROVER_requires(jwt->claims == NULL || (__CPROVER_is_fresh(jwt->claims, sizeof(json_t)) && (jwt->claims->type == JSON_OBJECT || jwt->claims->type == JSON_ARRAY)))
__CPROVER_requires(out == NULL || __CPROVER_w_ok(out, sizeof(*out)))
__CPROVER_requires(g_cat_calls == 0 && g_js_calls == 0 && g_spf_dst == NULL && reg_cnt == 0)
__CPROVER_assigns(out != NULL: *out; jwt->error, SPEC_ERRMSG_FRAME(jwt), ENC_GHOSTS)
__CPROVER_ensures(__CPROVER_return_value == 0 ==> (out != NULL && *out != NULL))
/* a failed encode hands nothing out (jwt_encode_str relies on it) */
__CPROVER_ensures((__CPROVER_return_value != 0 && out != NULL) ==> *out == NULL)
__CPROVER_ensures((__CPROVER_return_value == 0 && jwt->alg == JWT_ALG_NONE) ==> (g_js_calls == 0 && g_cat_calls == 3 &&
	*out == g_cpy_dst && g_cat_dst[2] == g_cpy_dst && g_cat_src[2][0] == '.' && g_cat_src[2][1] == 0))
__CPROVER_ensures((__CPROVER_return_value == 0 && jwt->alg != JWT_ALG_NONE) ==> (g_js_calls == 1 && g_js_ret == 0 && g_js_alg == jwt->alg &&
	g_cat_calls == 2 && g_js_str == g_cpy_dst && g_cat_dst[0] == g_cpy_dst && g_cat_dst[1] == g_cpy_dst &&
	g_cat_src[0][0] == '.' && g_cat_src[0][1] == 0 && (size_t)g_js_len == g_len_cpy + 1 + g_len_cat[1] &&
	*out == g_spf_dst && g_spf_a == g_cpy_src && g_spf_b == g_cat_src[1]))
__CPROVER_ensures(__CPROVER_return_value == 0 ==> g_json_dumps_flags == (JSON_SORT_KEYS | JSON_COMPACT))
__CPROVER_ensures(SPEC_ERRMSG_TERMINATED(jwt))
;

/* jwt_head_setup: typ "JWT" (kept if the application set its own) for signed tokens only,
 * alg always, by its RFC name, replacing whatever was there (C10, C03); failures flagged (C14). */
extern char g_alg_name[8];
extern unsigned g_hset_calls; extern const char *g_hset_name[2], *g_hset_val[2]; extern int g_hset_replace[2], g_hset_ret[2], g_hset_type[2];
#define HSET_GHOSTS g_hset_calls, __CPROVER_object_whole(g_hset_name), __CPROVER_object_whole(g_hset_val), __CPROVER_object_whole(g_hset_replace), \
	__CPROVER_object_whole(g_hset_ret), __CPROVER_object_whole(g_hset_type), __CPROVER_object_whole(g_alg_name)
#define NAME3(s, a, b, c) ((s) != NULL && (s)[0] == (a) && (s)[1] == (b) && (s)[2] == (c) && (s)[3] == 0)
#define HSET_IS_ALG(k) (NAME3(g_hset_name[k], 'a', 'l', 'g') && g_hset_type[k] == JWT_VALUE_STR && g_hset_replace[k] == 1 && \
	g_hset_ret[k] == JWT_VALUE_ERR_NONE && g_hset_val[k] != NULL && SPEC_NAME_IS(g_hset_val[k], jwt->alg))
int contract_C10_jwt_head_setup(jwt_t *jwt)
__CPROVER_requires(__CPROVER_is_fresh(jwt, sizeof(*jwt)) && SPEC_ERRMSG_TERMINATED(jwt) && g_hset_calls == 0)
__CPROVER_assigns(jwt->error, SPEC_ERRMSG_FRAME(jwt), HSET_GHOSTS)
__CPROVER_ensures(__CPROVER_return_value == 0 || __CPROVER_return_value == 1)
__CPROVER_ensures(__CPROVER_return_value != 0 ==> (jwt->error == 1 && jwt->error_msg[0] != 0))
__CPROVER_ensures(__CPROVER_return_value == 0 ==> jwt->error == __CPROVER_old(jwt->error))
__CPROVER_ensures(SPEC_ERRMSG_TERMINATED(jwt))
SPEC_ERR_MONOTONE(jwt)
/* an algorithm without a name cannot be written */
__CPROVER_ensures(!SPEC_ALG_KNOWN(jwt->alg) ==> __CPROVER_return_value != 0)
/* unsigned token: alg only */
__CPROVER_ensures((__CPROVER_return_value == 0 && jwt->alg == JWT_ALG_NONE) ==> (g_hset_calls == 1 && HSET_IS_ALG(0)))
/* signed token: typ "JWT" unless the application has one, then alg */
__CPROVER_ensures((__CPROVER_return_value == 0 && jwt->alg != JWT_ALG_NONE) ==> (g_hset_calls == 2 && HSET_IS_ALG(1) &&
	NAME3(g_hset_name[0], 't', 'y', 'p') && NAME3(g_hset_val[0], 'J', 'W', 'T') && g_hset_type[0] == JWT_VALUE_STR && g_hset_replace[0] == 0 &&
	(g_hset_ret[0] == JWT_VALUE_ERR_NONE || g_hset_ret[0] == JWT_VALUE_ERR_EXIST)))
;
/* jwt_encode_str: the string jwt_encode produced, or NULL when it failed.  jwt_encode (static) is
 * replaced by the projection of contract_C10_jwt_encode that jwt_encode_str needs, plus recording. */
int contract_rec_jwt_encode(jwt_t *jwt, char **out)
__CPROVER_requires(__CPROVER_rw_ok(jwt, sizeof(*jwt)) && out != NULL && __CPROVER_w_ok(out, sizeof(*out)) && SPEC_ERRMSG_TERMINATED(jwt))
__CPROVER_assigns(*out, jwt->error, SPEC_ERRMSG_FRAME(jwt), g_enc_out, g_enc_rc)
__CPROVER_ensures(g_enc_rc == __CPROVER_return_value && g_enc_out == *out)
__CPROVER_ensures(__CPROVER_return_value != 0 ==> *out == NULL)
__CPROVER_ensures(__CPROVER_return_value == 0 ==> *out != NULL)
__CPROVER_ensures(SPEC_ERRMSG_TERMINATED(jwt))
;
char *contract_C10_jwt_encode_str(jwt_t *jwt)
__CPROVER_requires(__CPROVER_is_fresh(jwt, sizeof(*jwt)) && SPEC_ERRMSG_TERMINATED(jwt))
__CPROVER_assigns(jwt->error, SPEC_ERRMSG_FRAME(jwt), g_enc_out, g_enc_rc)
__CPROVER_ensures((g_enc_rc == 0) == (__CPROVER_return_value != NULL))
__CPROVER_ensures(__CPROVER_return_value == g_enc_out)
;
extern char *g_enc_out; extern int g_enc_rc;
#endif
