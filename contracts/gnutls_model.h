/* gnutls_model.h -- state of the GnuTLS model (stubs/gnutls.c) */
#ifndef VERIF_GNUTLS_MODEL_H
#define VERIF_GNUTLS_MODEL_H
#include <gnutls/gnutls.h>
#include <gnutls/abstract.h>
struct gnutls_pubkey_st { const void *pem; int pk; int live; };	/* where the key was imported from, its pk algorithm */
struct gnutls_privkey_st { const void *pem; int pk; int live; };
void verif_gnutls_free(void *p);
/* ghost: the DER buffer produced by the last gnutls_encode_rs_value and its raw inputs */
extern const void *g_rs_buf, *g_rs_r, *g_rs_s; extern size_t g_rs_rn, g_rs_sn;
#endif
