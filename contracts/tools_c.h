/* tools_c.h -- contracts for the command-line tools (tools/*.c), property C20.
 * main() of each tool is compiled under the name tool_main (-Dmain=tool_main). */
#ifndef VERIF_TOOLS_C_H
#define VERIF_TOOLS_C_H
#include <getopt.h>
#include <jwt.h>
/* printf is variadic (see prelude.h on snprintf/fprintf): dropped */
#undef printf
#define printf(...) ((int)0)
#undef sprintf
#define sprintf(...) ((int)0)	/* the tools format file names only */
extern unsigned long long g_tok_calls, g_tok_bad; extern int g_exit_status8; extern unsigned g_getopt_calls; extern const char *g_tok_last;
extern int optind; extern char *optarg;
static char *pipe_cmd;	/* tentative definition; the real one is in tools/jwt-util.h */

int tool_main(int argc, char *argv[]);

/* jwt-verify: main never returns (every path ends in exit()); the status handed to exit()
 * is judged by exit()'s CHECKED precondition in stubs/tools_env.c. */
extern jwt_alg_t g_user_alg;	/* the algorithm named last with -a (stubs/tools_env.c) */
int contract_C20_jwt_verify_main(int argc, char *argv[])
__CPROVER_requires(argc >= 1 && argc <= 0x1000000)
__CPROVER_requires(__CPROVER_is_fresh(argv, ((size_t)argc + 1) * sizeof(char *)))
__CPROVER_requires(g_tok_calls == 0 && g_tok_bad == 0 && optind == 1 && g_user_alg == JWT_ALG_NONE)
__CPROVER_assigns(pipe_cmd, optind, optarg, g_tok_calls, g_tok_bad, g_exit_status8, g_getopt_calls, g_tok_last, g_user_alg)
__CPROVER_ensures(0 == 1)
;

/* BOUNDED twin for the content of stdin tokens (stubs/tools_env.c, -DVERIF_STDIN_MODEL): at most 2 arguments,
 * 1 option, 2 stdin lines of at most 3 characters; no loop contracts, so it does not depend on how the reading
 * loop is written (fgets into a buffer, getline, ...) */
extern unsigned g_lines, g_line_len; extern const char *g_line_buf; extern char g_line_copy[8];
int contract_C20_jwt_verify_main_stdin(int argc, char *argv[])
__CPROVER_requires(argc >= 1 && argc <= 2)
__CPROVER_requires(__CPROVER_is_fresh(argv, ((size_t)argc + 1) * sizeof(char *)))
__CPROVER_requires(g_tok_calls == 0 && g_tok_bad == 0 && optind == 1 && g_lines == 0 && g_line_buf == NULL && g_getopt_calls == 0 && g_user_alg == JWT_ALG_NONE)
__CPROVER_assigns(pipe_cmd, optind, optarg, g_tok_calls, g_tok_bad, g_exit_status8, g_getopt_calls, g_tok_last, g_user_alg, g_lines, g_line_buf, g_line_len, __CPROVER_object_whole(g_line_copy))
__CPROVER_ensures(0 == 1)
;

/* option tables of the other tools: main is run up to its first getopt_long() call, whose
 * CHECKED precondition (stubs/tools_env.c, -DVERIF_GETOPT_STOP ends the run there) compares
 * the short option string with the long-option table. */
int contract_C20_tool_main_tables(int argc, char *argv[])
__CPROVER_requires(argc >= 1 && argc <= 0x1000000)
__CPROVER_requires(__CPROVER_is_fresh(argv, ((size_t)argc + 1) * sizeof(char *)))
__CPROVER_requires(optind == 1 && g_tok_calls == 0 && g_tok_bad == 0)
__CPROVER_assigns(optind, optarg, g_exit_status8, g_getopt_calls)
__CPROVER_ensures(0 == 1)
;
#endif
