/* jwt_common_c.h -- contracts for libjwt/jwt-common.c, which is compiled twice
 * (as jwt-checker with -DJWT_CHECKER, as jwt-builder with -DJWT_BUILDER).
 * Units define VERIF_TU_CHECKER or VERIF_TU_BUILDER. */
#ifndef VERIF_JWT_COMMON_C_H
#define VERIF_JWT_COMMON_C_H
#include "spec.h"
#include "ops.h"
#include "jansson_model.h"

VERIF_OBS_DECL(sk_alg) VERIF_OBS_DECL(sk_haskey) VERIF_OBS_DECL(sk_keyalg) VERIF_OBS_DECL(sk_priv)

#ifdef VERIF_TU_CHECKER
typedef jwt_checker_t verif_cmd_t;
#define CMD_PRIVATE_OK(key) 1
static int __setkey_check(jwt_checker_t *__cmd, const jwt_alg_t alg, const jwk_item_t *key);
#endif
#ifdef VERIF_TU_BUILDER
typedef jwt_builder_t verif_cmd_t;
/* signing with a public-only key is refused (C10) */
#define CMD_PRIVATE_OK(key) ((key) == NULL || (key)->is_private_key)
static int __setkey_check(jwt_builder_t *__cmd, const jwt_alg_t alg, const jwk_item_t *key);
#endif

#if defined(VERIF_TU_CHECKER) || defined(VERIF_TU_BUILDER)
#define SK_ADMISSIBLE(cmd, alg, key) ((cmd) != NULL && CMD_PRIVATE_OK(key) && \
	SPEC_SETKEY_OK(alg, (key) != NULL, (key) != NULL ? (key)->alg : JWT_ALG_NONE))

/* the setkey admission table (documented at jwt_builder_setkey) */
#define DECL___setkey_check(NAME) \
int NAME(verif_cmd_t *__cmd, const jwt_alg_t alg, const jwk_item_t *key) \
__CPROVER_requires(__cmd == NULL || __CPROVER_is_fresh(__cmd, sizeof(*__cmd))) \
__CPROVER_requires(key == NULL || __CPROVER_is_fresh(key, sizeof(*key))) \
__CPROVER_requires(SPEC_ALG_IN_ENUM(alg) && (key == NULL || SPEC_ALG_IN_ENUM(key->alg))) \
__CPROVER_requires(__cmd == NULL || SPEC_ERRMSG_TERMINATED(__cmd)) \
__CPROVER_requires(OBS(sk_alg, alg) && OBS(sk_haskey, key != NULL) && OBS(sk_keyalg, key ? key->alg : -1) && \
		   OBS(sk_priv, key ? key->is_private_key : -1)) \
__CPROVER_assigns(__cmd != NULL: __cmd->error, SPEC_ERRMSG_FRAME(__cmd)) \
__CPROVER_ensures(__CPROVER_return_value == 0 || __CPROVER_return_value == 1) \
__CPROVER_ensures((__CPROVER_return_value == 0) == SK_ADMISSIBLE(__cmd, alg, key)) \
__CPROVER_ensures((__CPROVER_return_value != 0 && __cmd != NULL) ==> (__cmd->error == 1 && __cmd->error_msg[0] != 0)) \
__CPROVER_ensures((__CPROVER_return_value == 0) ==> __cmd->error == __CPROVER_old(__cmd->error)) \
__CPROVER_ensures(__cmd == NULL || SPEC_ERRMSG_TERMINATED(__cmd))
DECL___setkey_check(contract_C02___setkey_check);

/* setkey: stores the pair only when it is admissible; otherwise nothing changes */
#define DECL_setkey(NAME) \
int NAME(verif_cmd_t *__cmd, const jwt_alg_t alg, const jwk_item_t *key) \
__CPROVER_requires(__cmd == NULL || __CPROVER_is_fresh(__cmd, sizeof(*__cmd))) \
__CPROVER_requires(key == NULL || __CPROVER_is_fresh(key, sizeof(*key))) \
__CPROVER_requires(SPEC_ALG_IN_ENUM(alg) && (key == NULL || SPEC_ALG_IN_ENUM(key->alg))) \
__CPROVER_requires(__cmd == NULL || SPEC_ERRMSG_TERMINATED(__cmd)) \
__CPROVER_requires(OBS(sk_alg, alg) && OBS(sk_haskey, key != NULL) && OBS(sk_keyalg, key ? key->alg : -1) && \
		   OBS(sk_priv, key ? key->is_private_key : -1)) \
__CPROVER_assigns(__cmd != NULL: __cmd->error, SPEC_ERRMSG_FRAME(__cmd), __cmd->c.alg, __cmd->c.key) \
__CPROVER_ensures((__CPROVER_return_value == 0) == SK_ADMISSIBLE(__cmd, alg, key)) \
__CPROVER_ensures(__CPROVER_return_value == 0 ==> (__cmd->c.alg == alg && __cmd->c.key == key)) \
__CPROVER_ensures((__CPROVER_return_value != 0 && __cmd != NULL) ==> \
	(__cmd->c.alg == __CPROVER_old(__cmd->c.alg) && __cmd->c.key == __CPROVER_old(__cmd->c.key) && \
	 __cmd->error == 1 && __cmd->error_msg[0] != 0))
DECL_setkey(contract_C02_setkey);
#endif
#endif
