/* jwt_common_c.h -- contracts for libjwt/jwt-common.c, which is compiled twice
 * (as jwt-checker with -DJWT_CHECKER, as jwt-builder with -DJWT_BUILDER).
 * Units define VERIF_TU_CHECKER or VERIF_TU_BUILDER. */
#ifndef VERIF_JWT_COMMON_C_H
#define VERIF_JWT_COMMON_C_H
#include "spec.h"
#include "ops.h"
#include "jansson_model.h"
#include "jwt_verify_c.h"

VERIF_OBS_DECL(sk_alg) VERIF_OBS_DECL(sk_haskey) VERIF_OBS_DECL(sk_keyalg) VERIF_OBS_DECL(sk_priv)

#ifdef VERIF_TU_CHECKER
typedef jwt_checker_t verif_cmd_t;
#define CMD_PRIVATE_OK(key) 1
static int __setkey_check(jwt_checker_t *__cmd, const jwt_alg_t alg, const jwk_item_t *key);
#endif
#ifdef VERIF_TU_BUILDER
typedef jwt_builder_t verif_cmd_t;
/* signing with a public-only key is refused (C10) */
#define CMD_PRIVATE_OK(key) ((key) == NULL || (key)->is_private_key)
static int __setkey_check(jwt_builder_t *__cmd, const jwt_alg_t alg, const jwk_item_t *key);
#endif

#if defined(VERIF_TU_CHECKER) || defined(VERIF_TU_BUILDER)
#define SK_ADMISSIBLE(cmd, alg, key) ((cmd) != NULL && CMD_PRIVATE_OK(key) && \
	SPEC_SETKEY_OK(alg, (key) != NULL, (key) != NULL ? (key)->alg : JWT_ALG_NONE))

/* the setkey admission table (documented at jwt_builder_setkey) */
#define DECL___setkey_check(NAME) \
int NAME(verif_cmd_t *__cmd, const jwt_alg_t alg, const jwk_item_t *key) \
__CPROVER_requires(__cmd == NULL || __CPROVER_is_fresh(__cmd, sizeof(*__cmd))) \
__CPROVER_requires(key == NULL || __CPROVER_is_fresh(key, sizeof(*key))) \
__CPROVER_requires(SPEC_ALG_IN_ENUM(alg) && (key == NULL || SPEC_ALG_IN_ENUM(key->alg))) \
__CPROVER_requires(__cmd == NULL || SPEC_ERRMSG_TERMINATED(__cmd)) \
__CPROVER_requires(OBS(sk_alg, alg) && OBS(sk_haskey, key != NULL) && OBS(sk_keyalg, key ? key->alg : -1) && \
		   OBS(sk_priv, key ? key->is_private_key : -1)) \
__CPROVER_assigns(__cmd != NULL: __cmd->error, SPEC_ERRMSG_FRAME(__cmd)) \
__CPROVER_ensures(__CPROVER_return_value == 0 || __CPROVER_return_value == 1) \
__CPROVER_ensures((__CPROVER_return_value == 0) == SK_ADMISSIBLE(__cmd, alg, key)) \
__CPROVER_ensures((__CPROVER_return_value != 0 && __cmd != NULL) ==> (__cmd->error == 1 && __cmd->error_msg[0] != 0)) \
__CPROVER_ensures((__CPROVER_return_value == 0) ==> __cmd->error == __CPROVER_old(__cmd->error)) \
__CPROVER_ensures(__cmd == NULL || SPEC_ERRMSG_TERMINATED(__cmd))
DECL___setkey_check(contract_C02___setkey_check);

/* setkey: stores the pair only when it is admissible; otherwise nothing changes */
#define DECL_setkey(NAME) \
int NAME(verif_cmd_t *__cmd, const jwt_alg_t alg, const jwk_item_t *key) \
__CPROVER_requires(__cmd == NULL || __CPROVER_is_fresh(__cmd, sizeof(*__cmd))) \
__CPROVER_requires(key == NULL || __CPROVER_is_fresh(key, sizeof(*key))) \
__CPROVER_requires(SPEC_ALG_IN_ENUM(alg) && (key == NULL || SPEC_ALG_IN_ENUM(key->alg))) \
__CPROVER_requires(__cmd == NULL || SPEC_ERRMSG_TERMINATED(__cmd)) \
__CPROVER_requires(OBS(sk_alg, alg) && OBS(sk_haskey, key != NULL) && OBS(sk_keyalg, key ? key->alg : -1) && \
		   OBS(sk_priv, key ? key->is_private_key : -1)) \
__CPROVER_assigns(__cmd != NULL: __cmd->error, SPEC_ERRMSG_FRAME(__cmd), __cmd->c.alg, __cmd->c.key) \
__CPROVER_ensures((__CPROVER_return_value == 0) == SK_ADMISSIBLE(__cmd, alg, key)) \
__CPROVER_ensures(__CPROVER_return_value == 0 ==> (__cmd->c.alg == alg && __cmd->c.key == key)) \
__CPROVER_ensures((__CPROVER_return_value != 0 && __cmd != NULL) ==> \
	(__cmd->c.alg == __CPROVER_old(__cmd->c.alg) && __cmd->c.key == __CPROVER_old(__cmd->c.key) && \
	 __cmd->error == 1 && __cmd->error_msg[0] != 0))
DECL_setkey(contract_C02_setkey);
#endif

#ifdef VERIF_TU_CHECKER
/* ===================== jwt_checker_verify (top level) =================== */
/* ghost snapshot written by the abstract jwt_parse (stubs/verify_top.c) */
extern int g_parse_called, g_parse_ret, g_parsed_has, g_parsed_type;
extern long long g_parsed_int; extern const char *g_parsed_str;
extern jwt_alg_t g_parsed_alg; extern unsigned g_parsed_len;
/* ghost record of the user callback (written by its contract) */
extern int g_cb_called, g_cb_ret; extern const jwk_item_t *g_cb_key; extern jwt_alg_t g_cb_alg;
#define TOP_GHOSTS g_parse_called, g_parse_ret, g_parsed_has, g_parsed_type, g_parsed_int, g_parsed_str, g_parsed_alg, \
	g_parsed_len, g_cb_called, g_cb_ret, g_cb_key, g_cb_alg, g_json_version, g_json_mutations, g_json_loads_flags

VERIF_OBS_DECL(cb_present) VERIF_OBS_DECL(ck_claims) VERIF_OBS_DECL(ck_alg) VERIF_OBS_DECL(ck_haskey)

/* What a user callback may do (DESIGN section 5): read the token object, edit
 * its claims/headers through the public API (modelled on the tracked member:
 * keep / delete / replace by a node of any type), choose a key and an algorithm,
 * return anything.  It touches nothing else. */
int contract_cb_checker(jwt_t *jwt, jwt_config_t *config)
__CPROVER_requires(__CPROVER_rw_ok(jwt, sizeof(*jwt)) && __CPROVER_rw_ok(config, sizeof(*config)))
__CPROVER_requires(jwt->claims != NULL && __CPROVER_rw_ok(jwt->claims, sizeof(json_t)))
__CPROVER_assigns(config->key, config->alg, jwt->claims->tracked, g_cb_called, g_cb_ret, g_cb_key, g_cb_alg, g_json_version, g_json_mutations)
__CPROVER_ensures(g_cb_called == 1 && g_cb_ret == __CPROVER_return_value && g_cb_key == config->key && g_cb_alg == config->alg)
__CPROVER_ensures(SPEC_ALG_IN_ENUM(config->alg))
__CPROVER_ensures(config->key == NULL || config->key == __CPROVER_old(config->key) ||
	__CPROVER_is_fresh(config->key, sizeof(*config->key)))
__CPROVER_ensures(config->key == NULL || (SPEC_ALG_IN_ENUM(config->key->alg) && config->key->bits <= 0x7fffffff))
/* edits of the tracked claim: kept, deleted, or replaced by a fresh node */
__CPROVER_ensures(jwt->claims->tracked == NULL || jwt->claims->tracked == __CPROVER_old(jwt->claims->tracked) ||
	(jwt->claims->type == JSON_OBJECT && __CPROVER_is_fresh(jwt->claims->tracked, sizeof(json_t)) &&
	 jwt->claims->tracked->refcount == 1 && jwt->claims->tracked->tracked == NULL &&
	 jwt->claims->tracked->type >= JSON_OBJECT && jwt->claims->tracked->type <= JSON_NULL))
__CPROVER_ensures(jwt->claims->tracked == NULL || jwt->claims->tracked == __CPROVER_old(jwt->claims->tracked) ||
	jwt->claims->tracked->type != JSON_STRING ||
	(__CPROVER_is_fresh(jwt->claims->tracked->sval, g_vj_len_c + 1) && jwt->claims->tracked->sval[g_vj_len_c] == 0))
;

/* the key / algorithm in force after the callback */
#define TOP_KEY(CK) ((CK)->c.cb ? g_cb_key : (CK)->c.key)
#define TOP_ALG(CK) ((CK)->c.cb ? g_cb_alg : (CK)->c.alg)
#define TOP_SIGNED(token) ((token)[(size_t)g_parsed_len + 1] != 0)
/* the parsed (pre-callback) tracked claim fails by the statement of C04 */
#define SNAP_IS_INT (g_parsed_has && g_parsed_type == JSON_INTEGER)
#define SNAP_IS_STR (g_parsed_has && g_parsed_type == JSON_STRING)
#define SNAP_EXP_FAILS(CK) (((CK)->c.claims & JWT_CLAIM_EXP) && g_parsed_has && (!SNAP_IS_INT || !((long)g_parsed_int > g_now - (CK)->c.exp)))
#define SNAP_NBF_FAILS(CK) (((CK)->c.claims & JWT_CLAIM_NBF) && g_parsed_has && (!SNAP_IS_INT || !((long)g_parsed_int <= g_now + (CK)->c.nbf)))
#define SNAP_STR_MATCH(CK) (VJ_IS_STR((CK)->c.payload) && SNAP_IS_STR && g_strcmp_hits >= 1 && g_strcmp_b == g_parsed_str && g_strcmp_ret == 0)
#define SNAP_FAILS(CK) ( \
	(TRACKING3('e', 'x', 'p') && SNAP_EXP_FAILS(CK)) || (TRACKING3('n', 'b', 'f') && SNAP_NBF_FAILS(CK)) || \
	(TRACKING3('i', 's', 's') && ((CK)->c.claims & JWT_CLAIM_ISS) && !SNAP_STR_MATCH(CK)) || \
	(TRACKING3('s', 'u', 'b') && ((CK)->c.claims & JWT_CLAIM_SUB) && !SNAP_STR_MATCH(CK)) || \
	(TRACKING3('a', 'u', 'd') && ((CK)->c.claims & JWT_CLAIM_AUD) && !SNAP_STR_MATCH(CK)))

#define DECL_jwt_checker_verify(NAME, CLAUSES) \
int NAME(jwt_checker_t *__cmd, const char *token) \
__CPROVER_requires(__cmd == NULL || __CPROVER_is_fresh(__cmd, sizeof(*__cmd))) \
__CPROVER_requires(__cmd == NULL || VJ_IS_OBJECT(__cmd->c.payload)) \
__CPROVER_requires(__cmd == NULL || VJ_TRACKED_OK(__cmd->c.payload, g_vj_len_b)) \
__CPROVER_requires(__cmd == NULL || __cmd->c.key == NULL || __CPROVER_is_fresh(__cmd->c.key, sizeof(*__cmd->c.key))) \
__CPROVER_requires(__cmd == NULL || (SPEC_ALG_IN_ENUM(__cmd->c.alg) && \
	(__cmd->c.key == NULL || (SPEC_ALG_IN_ENUM(__cmd->c.key->alg) && __cmd->c.key->bits <= 0x7fffffff)))) \
__CPROVER_requires(__cmd == NULL || __cmd->c.cb == NULL || __CPROVER_obeys_contract(__cmd->c.cb, contract_cb_checker)) \
__CPROVER_requires(__cmd == NULL || SPEC_ERRMSG_TERMINATED(__cmd)) \
__CPROVER_requires(__cmd == NULL || C04_RANGES(__cmd)) \
__CPROVER_requires(KEY_IS_NAME3) \
__CPROVER_requires(g_vj_len_c < 0x1000000 && g_vj_len_a == g_vj_len_c && g_strcmp_hits == 0) \
__CPROVER_requires(__cmd == NULL || (VJ_IS_STR(__cmd->c.payload) ==> g_strcmp_watch == VJ_STR(__cmd->c.payload))) \
__CPROVER_requires(__cmd == NULL || (!VJ_IS_STR(__cmd->c.payload) ==> g_strcmp_watch == NULL)) \
__CPROVER_requires(OPS_TABLE_OBEYS(all)) \
__CPROVER_requires(g_parse_called == 0 && g_cb_called == 0) \
__CPROVER_requires(__cmd == NULL || (OBS(cb_present, __cmd->c.cb != NULL) && OBS(ck_claims, __cmd->c.claims) && \
	OBS(ck_alg, __cmd->c.alg) && OBS(ck_haskey, __cmd->c.key != NULL) && OBS(now, g_now) && \
	OBS(leeway_exp, __cmd->c.exp) && OBS(leeway_nbf, __cmd->c.nbf) && OBS(key0, g_json_key[0]))) \
/* C13 frame: only the error state of the checker is written (ghosts aside) */ \
__CPROVER_assigns(__cmd != NULL: __cmd->error, SPEC_ERRMSG_FRAME(__cmd); \
		  g_strcmp_b, g_strcmp_ret, g_strcmp_hits, OPS_GHOST_ASSIGNS, TOP_GHOSTS) \
__CPROVER_ensures(__cmd == NULL ==> __CPROVER_return_value != 0) \
__CPROVER_ensures(__cmd == NULL || SPEC_ERRMSG_TERMINATED(__cmd)) \
CLAUSES

#define TOP_ACCEPTED(CK) ((CK) != NULL && __CPROVER_return_value == 0)
/* C14: return value, flag and message agree */
#define C14_TOP_CLAUSES \
__CPROVER_ensures(__cmd != NULL ==> ((__CPROVER_return_value != 0) == (__cmd->error != 0))) \
__CPROVER_ensures(__cmd != NULL ==> ((__cmd->error != 0) == (__cmd->error_msg[0] != 0)))
/* C01: acceptance with a key only on the word of a primitive about this key,
 * the header's algorithm and exactly the text before the second dot */
#define C01_TOP_CLAUSES \
__CPROVER_ensures((TOP_ACCEPTED(__cmd) && TOP_KEY(__cmd) != NULL) ==> ( \
	g_parse_ret == 0 && token[g_parsed_len] == '.' && TOP_SIGNED(token) && SPEC_IS_SIGNING(g_parsed_alg) && \
	(SPEC_IS_HS(g_parsed_alg) ? \
	 (g_mac_key == TOP_KEY(__cmd)->oct.key && g_mac_keylen == TOP_KEY(__cmd)->oct.len && \
	  g_mac_data == (const void *)token && g_mac_len == g_parsed_len && g_mac_hash == SPEC_HASH_BITS(g_parsed_alg)) : \
	 (g_ver_valid == 1 && (g_ver_keymat == TOP_KEY(__cmd)->provider_data || \
			       (TOP_KEY(__cmd)->pem != NULL && g_ver_keymat == TOP_KEY(__cmd)->pem)) && \
	  g_ver_data == (const void *)token && g_ver_len == g_parsed_len && \
	  g_ver_hash == SPEC_HASH_BITS(g_parsed_alg) && g_ver_pss == SPEC_IS_PS(g_parsed_alg) && \
	  g_ver_family == (int)SPEC_KTY_FOR(g_parsed_alg)))))
/* C02: pinning, admission of the callback's choice, key family */
#define C02_TOP_CLAUSES \
__CPROVER_ensures((TOP_ACCEPTED(__cmd) && TOP_KEY(__cmd) != NULL) ==> ( \
	SPEC_SETKEY_OK(TOP_ALG(__cmd), 1, TOP_KEY(__cmd)->alg) && \
	g_parsed_alg == SPEC_PINNED_ALG(TOP_ALG(__cmd), 1, TOP_KEY(__cmd)->alg) && \
	TOP_KEY(__cmd)->kty == SPEC_KTY_FOR(g_parsed_alg)))
/* C03: with a key never unsigned / alg none; without a key only alg none, empty signature */
#define C03_TOP_CLAUSES \
__CPROVER_ensures((TOP_ACCEPTED(__cmd) && TOP_KEY(__cmd) != NULL) ==> (TOP_SIGNED(token) && g_parsed_alg != JWT_ALG_NONE)) \
__CPROVER_ensures((TOP_ACCEPTED(__cmd) && TOP_KEY(__cmd) == NULL) ==> \
	(!TOP_SIGNED(token) && g_parsed_alg == JWT_ALG_NONE && TOP_ALG(__cmd) == JWT_ALG_NONE))
/* C04 + C19: the claims of the token AS PARSED decide, whatever the callback did to the object */
#define C04_TOP_CLAUSES \
__CPROVER_ensures((__cmd != NULL && g_parse_ret == 0 && g_parse_called && SNAP_FAILS(__cmd)) ==> __CPROVER_return_value != 0)
#define C19_TOP_CLAUSES \
__CPROVER_ensures((__cmd != NULL && g_cb_called && g_cb_ret != 0) ==> __CPROVER_return_value != 0) \
C04_TOP_CLAUSES
/* C06: whatever jwt_parse refuses is refused */
#define C06_TOP_CLAUSES \
__CPROVER_ensures((__cmd != NULL && (token == NULL || token[0] == 0)) ==> __CPROVER_return_value != 0) \
__CPROVER_ensures((__cmd != NULL && g_parse_called && g_parse_ret != 0) ==> __CPROVER_return_value != 0)
/* C09 */
#define C09_TOP_CLAUSES \
__CPROVER_ensures((TOP_ACCEPTED(__cmd) && TOP_KEY(__cmd) != NULL) ==> \
	(SPEC_HMAC_OK(g_parsed_alg, TOP_KEY(__cmd)->bits) || SPEC_ASYM_OK(g_parsed_alg, TOP_KEY(__cmd)->bits)))
DECL_jwt_checker_verify(contract_C01_jwt_checker_verify, C01_TOP_CLAUSES);
DECL_jwt_checker_verify(contract_C02_jwt_checker_verify, C02_TOP_CLAUSES);
DECL_jwt_checker_verify(contract_C03_jwt_checker_verify, C03_TOP_CLAUSES);
DECL_jwt_checker_verify(contract_C04_jwt_checker_verify, C04_TOP_CLAUSES);
DECL_jwt_checker_verify(contract_C06_jwt_checker_verify, C06_TOP_CLAUSES);
DECL_jwt_checker_verify(contract_C09_jwt_checker_verify, C09_TOP_CLAUSES);
DECL_jwt_checker_verify(contract_C13_jwt_checker_verify, );
DECL_jwt_checker_verify(contract_C14_jwt_checker_verify, C14_TOP_CLAUSES);
DECL_jwt_checker_verify(contract_C19_jwt_checker_verify, C19_TOP_CLAUSES);
#endif

#endif
