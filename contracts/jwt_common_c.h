/* jwt_common_c.h -- contracts for libjwt/jwt-common.c, which is compiled twice
 * (as jwt-checker with -DJWT_CHECKER, as jwt-builder with -DJWT_BUILDER).
 * Units define VERIF_TU_CHECKER or VERIF_TU_BUILDER. */
#ifndef VERIF_JWT_COMMON_C_H
#define VERIF_JWT_COMMON_C_H
#include "spec.h"
#include "ops.h"
#include "jansson_model.h"
#include "jwt_verify_c.h"

VERIF_OBS_DECL(sk_alg) VERIF_OBS_DECL(sk_haskey) VERIF_OBS_DECL(sk_keyalg) VERIF_OBS_DECL(sk_priv)

#ifdef VERIF_TU_CHECKER
typedef jwt_checker_t verif_cmd_t;
#define CMD_PRIVATE_OK(key) 1
static int __setkey_check(jwt_checker_t *__cmd, const jwt_alg_t alg, const jwk_item_t *key);
#endif
#ifdef VERIF_TU_BUILDER
typedef jwt_builder_t verif_cmd_t;
/* signing with a public-only key is refused (C10) */
#define CMD_PRIVATE_OK(key) ((key) == NULL || (key)->is_private_key)
static int __setkey_check(jwt_builder_t *__cmd, const jwt_alg_t alg, const jwk_item_t *key);
#endif

#if defined(VERIF_TU_CHECKER) || defined(VERIF_TU_BUILDER)
#define SK_ADMISSIBLE(cmd, alg, key) ((cmd) != NULL && CMD_PRIVATE_OK(key) && \
	SPEC_SETKEY_OK(alg, (key) != NULL, (key) != NULL ? (key)->alg : JWT_ALG_NONE))

/* the setkey admission table (documented at jwt_builder_setkey) */
#define DECL___setkey_check(NAME) \
int NAME(verif_cmd_t *__cmd, const jwt_alg_t alg, const jwk_item_t *key) \
__CPROVER_requires(__cmd == NULL || __CPROVER_is_fresh(__cmd, sizeof(*__cmd))) \
__CPROVER_requires(key == NULL || __CPROVER_is_fresh(key, sizeof(*key))) \
__CPROVER_requires(__cmd == NULL || SPEC_ERRMSG_TERMINATED(__cmd)) \
__CPROVER_requires(OBS(sk_alg, alg) && OBS(sk_haskey, key != NULL) && OBS(sk_keyalg, key ? key->alg : -1) && \
		   OBS(sk_priv, key ? key->is_private_key : -1)) \
__CPROVER_assigns(__cmd != NULL: __cmd->error, SPEC_ERRMSG_FRAME(__cmd)) \
__CPROVER_ensures(__CPROVER_return_value == 0 || __CPROVER_return_value == 1) \
__CPROVER_ensures((__CPROVER_return_value == 0) == SK_ADMISSIBLE(__cmd, alg, key)) \
__CPROVER_ensures((__CPROVER_return_value != 0 && __cmd != NULL) ==> (__cmd->error == 1 && __cmd->error_msg[0] != 0)) \
__CPROVER_ensures((__CPROVER_return_value == 0) ==> __cmd->error == __CPROVER_old(__cmd->error)) \
__CPROVER_ensures(__cmd == NULL || SPEC_ERRMSG_TERMINATED(__cmd))
DECL___setkey_check(contract_C02___setkey_check);

/* setkey: stores the pair only when it is admissible; otherwise nothing changes */
#define DECL_setkey(NAME) \
int NAME(verif_cmd_t *__cmd, const jwt_alg_t alg, const jwk_item_t *key) \
__CPROVER_requires(__cmd == NULL || __CPROVER_is_fresh(__cmd, sizeof(*__cmd))) \
__CPROVER_requires(key == NULL || __CPROVER_is_fresh(key, sizeof(*key))) \
__CPROVER_requires(__cmd == NULL || SPEC_ERRMSG_TERMINATED(__cmd)) \
__CPROVER_requires(OBS(sk_alg, alg) && OBS(sk_haskey, key != NULL) && OBS(sk_keyalg, key ? key->alg : -1) && \
		   OBS(sk_priv, key ? key->is_private_key : -1)) \
__CPROVER_assigns(__cmd != NULL: __cmd->error, SPEC_ERRMSG_FRAME(__cmd), __cmd->c.alg, __cmd->c.key) \
__CPROVER_ensures((__CPROVER_return_value == 0) == SK_ADMISSIBLE(__cmd, alg, key)) \
__CPROVER_ensures(__CPROVER_return_value == 0 ==> (__cmd->c.alg == alg && __cmd->c.key == key)) \
__CPROVER_ensures((__CPROVER_return_value != 0 && __cmd != NULL) ==> \
	(__cmd->c.alg == __CPROVER_old(__cmd->c.alg) && __cmd->c.key == __CPROVER_old(__cmd->c.key) && \
	 __cmd->error == 1 && __cmd->error_msg[0] != 0))
DECL_setkey(contract_C02_setkey);
#endif

#ifdef VERIF_TU_CHECKER
/* ============ checker configuration: whole-state postconditions (C04) ==== */
/* "the policy in force is that of the most recent configuration calls": each
 * call's effect on (claims mask, leeways) is a function of the old state and
 * the arguments, everything else unchanged -- by induction over any call
 * sequence the policy is what the calls said, in order. */
VERIF_OBS_DECL(tl_claim) VERIF_OBS_DECL(tl_secs) VERIF_OBS_DECL(tl_old)
int contract_C04_jwt_checker_time_leeway(jwt_checker_t *__cmd, jwt_claims_t claim, time_t secs)
__CPROVER_requires(__cmd == NULL || __CPROVER_is_fresh(__cmd, sizeof(*__cmd)))
__CPROVER_requires(__cmd == NULL || (OBS(tl_claim, claim) && OBS(tl_secs, secs) && OBS(tl_old, __cmd->c.claims)))
__CPROVER_assigns(__cmd != NULL: __cmd->c.exp, __cmd->c.nbf, __cmd->c.claims)
__CPROVER_ensures((__CPROVER_return_value == 0) == (__cmd != NULL && (claim == JWT_CLAIM_EXP || claim == JWT_CLAIM_NBF)))
/* exp: leeway stored; check off iff secs is negative (documented: -1), on otherwise */
__CPROVER_ensures((__cmd != NULL && claim == JWT_CLAIM_EXP) ==> (__cmd->c.exp == secs && __cmd->c.nbf == __CPROVER_old(__cmd->c.nbf) &&
	__cmd->c.claims == (secs < 0 ? (__CPROVER_old(__cmd->c.claims) & ~JWT_CLAIM_EXP) : (__CPROVER_old(__cmd->c.claims) | JWT_CLAIM_EXP))))
__CPROVER_ensures((__cmd != NULL && claim == JWT_CLAIM_NBF) ==> (__cmd->c.nbf == secs && __cmd->c.exp == __CPROVER_old(__cmd->c.exp) &&
	__cmd->c.claims == (secs < 0 ? (__CPROVER_old(__cmd->c.claims) & ~JWT_CLAIM_NBF) : (__CPROVER_old(__cmd->c.claims) | JWT_CLAIM_NBF))))
/* any other claim: refused, nothing changes */
__CPROVER_ensures((__cmd != NULL && claim != JWT_CLAIM_EXP && claim != JWT_CLAIM_NBF) ==> (__cmd->c.claims == __CPROVER_old(__cmd->c.claims) &&
	__cmd->c.exp == __CPROVER_old(__cmd->c.exp) && __cmd->c.nbf == __CPROVER_old(__cmd->c.nbf)))
;
#endif

#ifdef VERIF_TU_BUILDER
/* ============ builder configuration (C10) ================================ */
VERIF_OBS_DECL(to_claim) VERIF_OBS_DECL(to_secs) VERIF_OBS_DECL(to_old)
int contract_C10_jwt_builder_time_offset(jwt_builder_t *__cmd, jwt_claims_t claim, time_t secs)
__CPROVER_requires(__cmd == NULL || __CPROVER_is_fresh(__cmd, sizeof(*__cmd)))
__CPROVER_requires(__cmd == NULL || (OBS(to_claim, claim) && OBS(to_secs, secs) && OBS(to_old, __cmd->c.claims)))
__CPROVER_assigns(__cmd != NULL: __cmd->c.exp, __cmd->c.nbf, __cmd->c.claims)
__CPROVER_ensures((__CPROVER_return_value == 0) == (__cmd != NULL && (claim == JWT_CLAIM_EXP || claim == JWT_CLAIM_NBF)))
/* documented: secs <= 0 disables the claim, a positive offset enables it */
__CPROVER_ensures((__cmd != NULL && claim == JWT_CLAIM_EXP) ==> (__cmd->c.exp == secs && __cmd->c.nbf == __CPROVER_old(__cmd->c.nbf) &&
	__cmd->c.claims == (secs <= 0 ? (__CPROVER_old(__cmd->c.claims) & ~JWT_CLAIM_EXP) : (__CPROVER_old(__cmd->c.claims) | JWT_CLAIM_EXP))))
__CPROVER_ensures((__cmd != NULL && claim == JWT_CLAIM_NBF) ==> (__cmd->c.nbf == secs && __cmd->c.exp == __CPROVER_old(__cmd->c.exp) &&
	__cmd->c.claims == (secs <= 0 ? (__CPROVER_old(__cmd->c.claims) & ~JWT_CLAIM_NBF) : (__CPROVER_old(__cmd->c.claims) | JWT_CLAIM_NBF))))
__CPROVER_ensures((__cmd != NULL && claim != JWT_CLAIM_EXP && claim != JWT_CLAIM_NBF) ==> (__cmd->c.claims == __CPROVER_old(__cmd->c.claims) &&
	__cmd->c.exp == __CPROVER_old(__cmd->c.exp) && __cmd->c.nbf == __CPROVER_old(__cmd->c.nbf)))
;
int contract_C10_jwt_builder_enable_iat(jwt_builder_t *__cmd, int enable)
__CPROVER_requires(__cmd == NULL || __CPROVER_is_fresh(__cmd, sizeof(*__cmd)))
__CPROVER_assigns(__cmd != NULL: __cmd->c.claims)
__CPROVER_ensures(__cmd == NULL ==> __CPROVER_return_value == -1)
__CPROVER_ensures(__cmd != NULL ==> (__CPROVER_return_value == ((__CPROVER_old(__cmd->c.claims) & JWT_CLAIM_IAT) ? 1 : 0) &&
	__cmd->c.claims == (enable ? (__CPROVER_old(__cmd->c.claims) | JWT_CLAIM_IAT) : (__CPROVER_old(__cmd->c.claims) & ~JWT_CLAIM_IAT))))
;
#endif

#ifdef VERIF_TU_CHECKER
/* ===================== jwt_checker_verify (top level) =================== */
/* The top-level function is verified as PLUMBING between three abstract
 * bodies (stubs/verify_top.c: jwt_new, jwt_parse, jwt_verify_complete) and the
 * callback contract: its postconditions say which token text, split point,
 * key, algorithm and claims reach jwt_verify_complete and how the verdict
 * travels back.  Composed with contract_all_jwt_verify_complete (proved on the
 * real function) this yields the API-level statements of C01-C04, C09, C19. */
extern int g_parse_called, g_parse_ret, g_parsed_has, g_parsed_type;
extern long long g_parsed_int; extern const char *g_parsed_str;
extern jwt_alg_t g_parsed_alg; extern unsigned g_parsed_len;
extern unsigned g_vc_calls; extern const char *g_vc_token; extern unsigned g_vc_plen; extern const jwk_item_t *g_vc_key;
extern jwt_alg_t g_vc_alg, g_vc_hdr_alg; extern const void *g_vc_checker; extern int g_vc_has, g_vc_type, g_vc_error;
extern long long g_vc_int; extern const char *g_vc_str;
/* ghost record of the user callback (written by its contract) and the objects it may hand out */
extern int g_cb_called, g_cb_ret; extern const jwk_item_t *g_cb_key; extern jwt_alg_t g_cb_alg;
extern jwk_item_t *g_cb_pool_key; extern json_t *g_cb_pool_node;
#define TOP_GHOSTS g_parse_called, g_parse_ret, g_parsed_has, g_parsed_type, g_parsed_int, g_parsed_str, g_parsed_alg, \
	g_parsed_len, g_cb_called, g_cb_ret, g_cb_key, g_cb_alg, g_vc_calls, g_vc_token, g_vc_plen, g_vc_key, g_vc_alg, \
	g_vc_hdr_alg, g_vc_checker, g_vc_has, g_vc_type, g_vc_int, g_vc_str, g_vc_error

VERIF_OBS_DECL(cb_present) VERIF_OBS_DECL(ck_alg) VERIF_OBS_DECL(ck_haskey)

/* What a user callback may do (DESIGN section 5): read the token object, edit
 * its claims through the public API (modelled on the tracked member: keep /
 * delete / replace by another node of any type), choose a key and an
 * algorithm, return anything.  It touches nothing else. */
int contract_cb_checker(jwt_t *jwt, jwt_config_t *config)
__CPROVER_requires(__CPROVER_rw_ok(jwt, sizeof(*jwt)) && __CPROVER_rw_ok(config, sizeof(*config)))
__CPROVER_requires(jwt->claims != NULL && __CPROVER_rw_ok(jwt->claims, sizeof(json_t)))
__CPROVER_assigns(config->key, config->alg, jwt->claims->tracked, g_cb_called, g_cb_ret, g_cb_key, g_cb_alg)
__CPROVER_ensures(g_cb_called == 1 && g_cb_ret == __CPROVER_return_value && g_cb_key == config->key && g_cb_alg == config->alg)
__CPROVER_ensures(SPEC_ALG_IN_ENUM(config->alg))
/* key choice: keep the configured key or drop it (the configured key is itself
 * arbitrary, so "the callback picks key K" is covered by "K is configured and
 * the callback keeps it") */
__CPROVER_ensures(config->key == NULL || config->key == __CPROVER_old(config->key))
__CPROVER_ensures(jwt->claims->tracked == NULL || jwt->claims->tracked == __CPROVER_old(jwt->claims->tracked) ||
	(jwt->claims->type == JSON_OBJECT && jwt->claims->tracked == g_cb_pool_node))
;

#define NOCB(CK) ((CK) != NULL && (CK)->c.cb == NULL)
#define WITHCB(CK) ((CK) != NULL && (CK)->c.cb != NULL)

#define DECL_jwt_checker_verify(NAME, CLAUSES) \
int NAME(jwt_checker_t *__cmd, const char *token) \
__CPROVER_requires(__cmd == NULL || __CPROVER_is_fresh(__cmd, sizeof(*__cmd))) \
__CPROVER_requires(__cmd == NULL || __cmd->c.key == NULL || __CPROVER_is_fresh(__cmd->c.key, sizeof(*__cmd->c.key))) \
__CPROVER_requires(__cmd == NULL || (SPEC_ALG_IN_ENUM(__cmd->c.alg) && (__cmd->c.key == NULL || SPEC_ALG_IN_ENUM(__cmd->c.key->alg)))) \
__CPROVER_requires(__cmd == NULL || __cmd->c.cb == NULL || __CPROVER_obeys_contract(__cmd->c.cb, contract_cb_checker)) \
__CPROVER_requires(__CPROVER_is_fresh(g_cb_pool_node, sizeof(json_t)) && g_cb_pool_node->refcount == 2 /* shared with the callback */ && \
	g_cb_pool_node->type >= JSON_OBJECT && g_cb_pool_node->type <= JSON_NULL && g_cb_pool_node->tracked == NULL) \
__CPROVER_requires(__cmd == NULL || SPEC_ERRMSG_TERMINATED(__cmd)) \
__CPROVER_requires(KEY_IS_NAME3 && g_vj_len_c < 0x1000000) \
__CPROVER_requires(g_parse_called == 0 && g_cb_called == 0 && g_vc_calls == 0) \
__CPROVER_requires(__cmd == NULL || (OBS(cb_present, __cmd->c.cb != NULL) && OBS(ck_alg, __cmd->c.alg) && OBS(ck_haskey, __cmd->c.key != NULL))) \
/* C13 frame: only the error state of the checker is written (ghosts aside) */ \
__CPROVER_assigns(__cmd != NULL: __cmd->error, SPEC_ERRMSG_FRAME(__cmd); TOP_GHOSTS) \
__CPROVER_ensures(__cmd == NULL ==> __CPROVER_return_value != 0) \
__CPROVER_ensures(__cmd == NULL || SPEC_ERRMSG_TERMINATED(__cmd)) \
CLAUSES

/* C14: return value, flag and message agree */
#define C14_TOP_CLAUSES \
__CPROVER_ensures(__cmd != NULL ==> ((__CPROVER_return_value != 0) == (__cmd->error != 0))) \
__CPROVER_ensures(__cmd != NULL ==> ((__cmd->error != 0) == (__cmd->error_msg[0] != 0)))
/* C01 / C06: acceptance means: parsed, then judged once by jwt_verify_complete on
 * exactly the caller's token text, split where jwt_parse split it, with the
 * algorithm latched at parse time, and it left the flag clear */
#define C01_TOP_CLAUSES \
__CPROVER_ensures((__cmd != NULL && __CPROVER_return_value == 0) ==> ( \
	g_parse_called && g_parse_ret == 0 && g_vc_calls == 1 && g_vc_error == 0 && g_vc_token == token && \
	g_vc_plen == g_parsed_len && g_vc_hdr_alg == g_parsed_alg && g_vc_checker == (const void *)__cmd))
#define C06_TOP_CLAUSES \
__CPROVER_ensures((__cmd != NULL && (token == NULL || token[0] == 0)) ==> __CPROVER_return_value != 0) \
__CPROVER_ensures((__cmd != NULL && g_parse_called && g_parse_ret != 0) ==> __CPROVER_return_value != 0)
/* C02 / C03 / C19: the key and algorithm that reach the policy check are the
 * stored ones (no callback) or the callback's, and in both cases they passed
 * the setkey admission table */
#define C02_TOP_CLAUSES \
__CPROVER_ensures((NOCB(__cmd) && __CPROVER_return_value == 0) ==> (g_vc_key == __cmd->c.key && g_vc_alg == __cmd->c.alg)) \
__CPROVER_ensures((WITHCB(__cmd) && __CPROVER_return_value == 0) ==> (g_cb_called && g_vc_key == g_cb_key && g_vc_alg == g_cb_alg)) \
/* (ghost pointers set by contract assumptions are compared, never dereferenced: \
 * cbmc resolves dereferences through value sets, which such pointers lack) */ \
__CPROVER_ensures((__cmd != NULL && __CPROVER_return_value == 0 && g_vc_key != NULL) ==> \
	(g_vc_key == __cmd->c.key && SPEC_SETKEY_OK(g_vc_alg, 1, __cmd->c.key->alg))) \
__CPROVER_ensures((__cmd != NULL && __CPROVER_return_value == 0 && g_vc_key == NULL) ==> g_vc_alg == JWT_ALG_NONE)
/* C19: a callback that fails makes verification fail; the claims that are
 * judged are the claims that were parsed, whatever the callback did */
#define C19_TOP_CLAUSES \
__CPROVER_ensures((__cmd != NULL && g_cb_called && g_cb_ret != 0) ==> __CPROVER_return_value != 0) \
__CPROVER_ensures((__cmd != NULL && __CPROVER_return_value == 0) ==> ( \
	g_vc_has == g_parsed_has && g_vc_type == g_parsed_type && g_vc_int == g_parsed_int && g_vc_str == g_parsed_str))
/* C13: the verdict is the one jwt_verify_complete reached on THIS token -- it does
 * not depend on the error state the checker had before the call */
#define C13_TOP_CLAUSES \
__CPROVER_ensures((__cmd != NULL && g_vc_calls == 1) ==> ((__CPROVER_return_value != 0) == (g_vc_error != 0)))
DECL_jwt_checker_verify(contract_all_jwt_checker_verify, C14_TOP_CLAUSES C01_TOP_CLAUSES C06_TOP_CLAUSES C02_TOP_CLAUSES C19_TOP_CLAUSES C13_TOP_CLAUSES);
#endif


#ifdef VERIF_TU_BUILDER
/* ===================== jwt_builder_generate (top level) ================= */
/* plumbing between abstract bodies (stubs/generate_top.c) and the callback */
extern int g_oom; extern unsigned g_dc_calls; extern const json_t *g_dc_src[2]; extern json_t *g_dc_res[2];
extern unsigned g_cs_calls; extern char g_cs_name0[3]; extern long g_cs_val[3]; extern int g_cs_replace[3], g_cs_ret[3];
extern const json_t *g_cs_target[3];
extern unsigned g_hs_calls, g_enc_calls; extern jwt_alg_t g_hs_alg, g_enc_alg; extern int g_hs_ret;
extern const jwk_item_t *g_enc_key; extern char *g_enc_ret;
extern int g_cb_called, g_cb_ret; extern const jwk_item_t *g_cb_key; extern jwt_alg_t g_cb_alg;
extern time_t g_now;
#define GEN_GHOSTS g_oom, g_dc_calls, __CPROVER_object_whole(g_dc_src), __CPROVER_object_whole(g_dc_res), g_cs_calls, \
	__CPROVER_object_whole(g_cs_name0), __CPROVER_object_whole(g_cs_val), __CPROVER_object_whole(g_cs_replace), \
	__CPROVER_object_whole(g_cs_ret), __CPROVER_object_whole(g_cs_target), g_hs_calls, g_hs_alg, g_hs_ret, g_enc_calls, \
	g_enc_alg, g_enc_key, g_enc_ret, g_cb_called, g_cb_ret, g_cb_key, g_cb_alg

VERIF_OBS_DECL(b_claims) VERIF_OBS_DECL(b_alg) VERIF_OBS_DECL(b_haskey) VERIF_OBS_DECL(b_keyalg) VERIF_OBS_DECL(b_cb)
VERIF_OBS_DECL(b_now) VERIF_OBS_DECL(b_off_nbf) VERIF_OBS_DECL(b_off_exp)

/* a generate callback: may edit the per-call token, choose key (keep / drop) and alg, return anything */
int contract_cb_builder(jwt_t *jwt, jwt_config_t *config)
__CPROVER_requires(__CPROVER_rw_ok(jwt, sizeof(*jwt)) && __CPROVER_rw_ok(config, sizeof(*config)))
__CPROVER_assigns(config->key, config->alg, g_cb_called, g_cb_ret, g_cb_key, g_cb_alg)
__CPROVER_ensures(g_cb_called == 1 && g_cb_ret == __CPROVER_return_value && g_cb_key == config->key && g_cb_alg == config->alg)
__CPROVER_ensures(SPEC_ALG_IN_ENUM(config->alg))
__CPROVER_ensures(config->key == NULL || config->key == __CPROVER_old(config->key))
;

#define GEN_NOCB(B) ((B) != NULL && (B)->c.cb == NULL)
#define GEN_WITHCB(B) ((B) != NULL && (B)->c.cb != NULL)
/* number of time claims the builder has switched on */
#define GEN_N_TIME(B) ((((B)->c.claims & JWT_CLAIM_IAT) ? 1 : 0) + (((B)->c.claims & JWT_CLAIM_NBF) ? 1 : 0) + (((B)->c.claims & JWT_CLAIM_EXP) ? 1 : 0))
#define GEN_IDX_NBF(B) (((B)->c.claims & JWT_CLAIM_IAT) ? 1 : 0)
#define GEN_IDX_EXP(B) ((((B)->c.claims & JWT_CLAIM_IAT) ? 1 : 0) + (((B)->c.claims & JWT_CLAIM_NBF) ? 1 : 0))

/* the (key, alg) pair the call ends up with: the callback keeps or drops the builder's key and picks any alg; a key without
 * an explicit alg is pinned to its own */
#define GEN_HASKEY(B) (GEN_WITHCB(B) ? g_cb_key != NULL : (B)->c.key != NULL)
#define GEN_A0(B) (GEN_WITHCB(B) ? g_cb_alg : (B)->c.alg)
#define GEN_EFF_ALG(B) ((GEN_A0(B) == JWT_ALG_NONE && GEN_HASKEY(B)) ? (B)->c.key->alg : GEN_A0(B))
#define GEN_ADMISSIBLE(B) ((!GEN_HASKEY(B) || (B)->c.key->is_private_key) && \
	SPEC_SETKEY_OK(GEN_EFF_ALG(B), GEN_HASKEY(B), GEN_HASKEY(B) ? (B)->c.key->alg : JWT_ALG_NONE))
#define DECL_jwt_builder_generate(NAME, CLAUSES) \
char *NAME(jwt_builder_t *__cmd) \
__CPROVER_requires(__cmd == NULL || __CPROVER_is_fresh(__cmd, sizeof(*__cmd))) \
__CPROVER_requires(__cmd == NULL || __cmd->c.key == NULL || __CPROVER_is_fresh(__cmd->c.key, sizeof(*__cmd->c.key))) \
__CPROVER_requires(__cmd == NULL || (__CPROVER_is_fresh(__cmd->c.headers, sizeof(json_t)) && __cmd->c.headers->type == JSON_OBJECT)) \
__CPROVER_requires(__cmd == NULL || (__CPROVER_is_fresh(__cmd->c.payload, sizeof(json_t)) && __cmd->c.payload->type == JSON_OBJECT)) \
__CPROVER_requires(__cmd == NULL || (SPEC_ALG_IN_ENUM(__cmd->c.alg) && (__cmd->c.key == NULL || SPEC_ALG_IN_ENUM(__cmd->c.key->alg)))) \
__CPROVER_requires(__cmd == NULL || __cmd->c.cb == NULL || __CPROVER_obeys_contract(__cmd->c.cb, contract_cb_builder)) \
__CPROVER_requires(__cmd == NULL || SPEC_ERRMSG_TERMINATED(__cmd)) \
/* clock and offsets: DESIGN section 5 */ \
__CPROVER_requires(g_now >= 0 && g_now <= (1L << 60)) \
__CPROVER_requires(__cmd == NULL || (__cmd->c.exp >= -(1L << 40) && __cmd->c.exp <= (1L << 40) && __cmd->c.nbf >= -(1L << 40) && __cmd->c.nbf <= (1L << 40))) \
__CPROVER_requires(g_oom == 0 && g_dc_calls == 0 && g_cs_calls == 0 && g_hs_calls == 0 && g_enc_calls == 0 && g_cb_called == 0) \
__CPROVER_requires(__cmd == NULL || (OBS(b_claims, __cmd->c.claims) && OBS(b_alg, __cmd->c.alg) && OBS(b_haskey, __cmd->c.key != NULL) && \
	OBS(b_keyalg, __cmd->c.key ? __cmd->c.key->alg : -1) && OBS(b_cb, __cmd->c.cb != NULL) && OBS(b_now, g_now) && \
	OBS(b_off_nbf, __cmd->c.nbf) && OBS(b_off_exp, __cmd->c.exp))) \
/* C10/C13 frame: generating leaves the builder unchanged but for its error state */ \
__CPROVER_assigns(__cmd != NULL: __cmd->error, SPEC_ERRMSG_FRAME(__cmd); GEN_GHOSTS) \
__CPROVER_ensures(__cmd == NULL ==> __CPROVER_return_value == NULL) \
__CPROVER_ensures(__cmd == NULL || SPEC_ERRMSG_TERMINATED(__cmd)) \
__CPROVER_ensures(__CPROVER_return_value != NULL ==> (g_enc_calls == 1 && __CPROVER_return_value == g_enc_ret)) \
CLAUSES

/* C14: NULL exactly when the flag is set with a message (allocation failure aside: C17) */
#define C14_GEN_CLAUSES \
__CPROVER_ensures((__cmd != NULL && __CPROVER_return_value != NULL) ==> (__cmd->error == 0 && __cmd->error_msg[0] == 0)) \
__CPROVER_ensures((__cmd != NULL && __CPROVER_return_value == NULL && !g_oom) ==> (__cmd->error != 0 && __cmd->error_msg[0] != 0))
/* C03 / C02: a builder given a key never emits alg none; the algorithm used is the pinned one; the
 * callback's choice passes the (builder) admission table; without a key only alg none */
#define C03_GEN_FOR(WHEN, K, A) \
__CPROVER_ensures((WHEN(__cmd) && __CPROVER_return_value != NULL) ==> (g_enc_key == (K) && g_hs_calls == 1 && g_hs_alg == g_enc_alg)) \
__CPROVER_ensures((WHEN(__cmd) && __CPROVER_return_value != NULL && (K) != NULL) ==> \
	((K) == __cmd->c.key && g_enc_alg != JWT_ALG_NONE && __cmd->c.key->is_private_key && \
	 SPEC_IS_PINNED(g_enc_alg, A, 1, __cmd->c.key->alg))) \
__CPROVER_ensures((WHEN(__cmd) && __CPROVER_return_value != NULL && (K) == NULL) ==> g_enc_alg == JWT_ALG_NONE)
#define C03_GEN_CLAUSES C03_GEN_FOR(GEN_NOCB, __cmd->c.key, __cmd->c.alg) C03_GEN_FOR(GEN_WITHCB, g_cb_key, g_cb_alg)
/* C10: per-call copies of the builder's headers and claims; iat = now, nbf = now + offset,
 * exp = now + offset set with replace exactly when enabled, on the copy */
#define C10_GEN_CLAUSES \
__CPROVER_ensures((__cmd != NULL && g_dc_calls >= 2) ==> (g_dc_calls == 2 && g_dc_src[0] == __cmd->c.headers && g_dc_src[1] == __cmd->c.payload)) \
__CPROVER_ensures((__cmd != NULL && __CPROVER_return_value != NULL) ==> (g_dc_calls == 2 && g_cs_calls == (unsigned)GEN_N_TIME(__cmd))) \
__CPROVER_ensures((__cmd != NULL && __CPROVER_return_value != NULL && (__cmd->c.claims & JWT_CLAIM_IAT)) ==> \
	(g_cs_name0[0] == 'i' && g_cs_val[0] == (long)g_now && g_cs_replace[0] == 1 && g_cs_target[0] == g_dc_res[1])) \
__CPROVER_ensures((__cmd != NULL && __CPROVER_return_value != NULL && (__cmd->c.claims & JWT_CLAIM_NBF)) ==> \
	(g_cs_name0[GEN_IDX_NBF(__cmd)] == 'n' && g_cs_val[GEN_IDX_NBF(__cmd)] == (long)(g_now + __cmd->c.nbf) && \
	 g_cs_replace[GEN_IDX_NBF(__cmd)] == 1 && g_cs_target[GEN_IDX_NBF(__cmd)] == g_dc_res[1])) \
__CPROVER_ensures((__cmd != NULL && __CPROVER_return_value != NULL && (__cmd->c.claims & JWT_CLAIM_EXP)) ==> \
	(g_cs_name0[GEN_IDX_EXP(__cmd)] == 'e' && g_cs_val[GEN_IDX_EXP(__cmd)] == (long)(g_now + __cmd->c.exp) && \
	 g_cs_replace[GEN_IDX_EXP(__cmd)] == 1 && g_cs_target[GEN_IDX_EXP(__cmd)] == g_dc_res[1])) \
/* the header (forced alg, default typ) is set up exactly ONCE, for the algorithm the token is encoded with -- \
 * contract_C10_jwt_head_setup adds typ for a signed alg and never removes it, so a second pass with another alg would leave it behind */ \
__CPROVER_ensures((__cmd != NULL && __CPROVER_return_value != NULL) ==> (g_hs_calls == 1 && g_hs_alg == g_enc_alg))
/* C19-like for the builder / C13: a failing callback fails the call */
#define C13_GEN_CLAUSES \
__CPROVER_ensures((__cmd != NULL && g_cb_called && g_cb_ret != 0) ==> __CPROVER_return_value == NULL) \
/* the result is the one jwt_encode_str produced for THIS call, whatever error state the builder had */ \
__CPROVER_ensures((__cmd != NULL && g_enc_calls == 1) ==> (__CPROVER_return_value == g_enc_ret && \
	(__cmd->error != 0) == (g_enc_ret == NULL))) \
/* ... and a refusal has its cause in THIS call (a failing callback, an inadmissible key/alg, a failed header set-up or \
 * encoding, an allocation failure) -- never in the error state an earlier call left behind */ \
__CPROVER_ensures((__cmd != NULL && __CPROVER_return_value == NULL && !g_oom) ==> ((g_cb_called && g_cb_ret != 0) || !GEN_ADMISSIBLE(__cmd) || \
	(g_hs_calls == 1 && g_hs_ret != 0) || (g_enc_calls == 1 && g_enc_ret == NULL)))
/* C17: a token is returned only if every step succeeded (no silently dropped iat/nbf/exp) */
#define C17_GEN_CLAUSES \
__CPROVER_ensures((__cmd != NULL && __CPROVER_return_value != NULL) ==> ( \
	g_dc_res[0] != NULL && g_dc_res[1] != NULL && \
	(g_cs_calls < 1 || g_cs_ret[0] == JWT_VALUE_ERR_NONE) && (g_cs_calls < 2 || g_cs_ret[1] == JWT_VALUE_ERR_NONE) && \
	(g_cs_calls < 3 || g_cs_ret[2] == JWT_VALUE_ERR_NONE) && g_hs_ret == 0))
DECL_jwt_builder_generate(contract_all_jwt_builder_generate, C14_GEN_CLAUSES C03_GEN_CLAUSES C10_GEN_CLAUSES C13_GEN_CLAUSES C17_GEN_CLAUSES);
#endif


#if defined(VERIF_TU_CHECKER) || defined(VERIF_TU_BUILDER)
/* C17: *_new() returns either NULL (an allocation failed) or a complete, live object: both JSON
 * containers present, no error, no key.  Never a released or half-built object.
 * *_free() releases the object; NULL is accepted. */
#ifdef VERIF_TU_CHECKER
#define SPEC_CLAIMS_DEF (JWT_CLAIM_EXP | JWT_CLAIM_NBF)
#else
#define SPEC_CLAIMS_DEF JWT_CLAIM_IAT
#endif
#define NEW_OK(r) (__CPROVER_is_fresh(r, sizeof(*(r))) && (r)->error == 0 && (r)->error_msg[0] == 0 && (r)->c.key == NULL && (r)->c.exp == 0 && (r)->c.nbf == 0 && \
	(r)->c.alg == JWT_ALG_NONE && (r)->c.cb == NULL && (r)->c.claims == SPEC_CLAIMS_DEF && \
	(r)->c.payload != NULL && (r)->c.headers != NULL && (r)->c.payload != (r)->c.headers)
#define NEW_DOCS_OK(r) ((r)->c.payload->type == JSON_OBJECT && (r)->c.payload->refcount == 1 && (r)->c.payload->tracked == NULL && \
	(r)->c.headers->type == JSON_OBJECT && (r)->c.headers->refcount == 1 && (r)->c.headers->tracked == NULL)
#define DECL_cmd_new(NAME) \
verif_cmd_t *NAME(void) \
__CPROVER_assigns() \
__CPROVER_ensures(__CPROVER_return_value == NULL || NEW_OK(__CPROVER_return_value)) \
__CPROVER_ensures(__CPROVER_return_value == NULL || NEW_DOCS_OK(__CPROVER_return_value))
DECL_cmd_new(contract_C17_cmd_new);
#endif

#if defined(VERIF_TU_CHECKER) || defined(VERIF_TU_BUILDER)
/* ============ error accessors, callback registration (C13, C14) ============
 * error(): 1 for a NULL object, else the flag as 0/1; error_msg(): the object's buffer;
 * error_clear(): flag and message gone and NOTHING ELSE touched (the configuration a later
 * verify/generate runs with is what the configuration calls left -- C13). */
#define CMD_FRESH_OR_NULL __CPROVER_requires(__cmd == NULL || __CPROVER_is_fresh(__cmd, sizeof(*__cmd)))
#define DECL_cmd_error(NAME) int NAME(const verif_cmd_t *__cmd) CMD_FRESH_OR_NULL __CPROVER_assigns() \
__CPROVER_ensures(__CPROVER_return_value == ((__cmd == NULL || __cmd->error) ? 1 : 0))
#define DECL_cmd_error_msg(NAME) const char *NAME(const verif_cmd_t *__cmd) CMD_FRESH_OR_NULL __CPROVER_assigns() \
__CPROVER_ensures(__CPROVER_return_value == (__cmd == NULL ? (const char *)0 : __cmd->error_msg))
#define DECL_cmd_error_clear(NAME) void NAME(verif_cmd_t *__cmd) CMD_FRESH_OR_NULL \
__CPROVER_assigns(__cmd != NULL: __cmd->error, SPEC_ERRMSG_FRAME(__cmd)) \
__CPROVER_ensures(__cmd == NULL || (__cmd->error == 0 && __cmd->error_msg[0] == 0))
DECL_cmd_error(contract_C14_cmd_error);
DECL_cmd_error_msg(contract_C14_cmd_error_msg);
DECL_cmd_error_clear(contract_C13_cmd_error_clear);
/* setcb (documented at jwt_checker_setcb): cb and ctx are stored together; cb == NULL with a ctx
 * updates only the ctx of an installed callback and is refused (error set, nothing stored) when
 * none is installed; both NULL disables the callback.  Key, alg, claims policy: untouched (frame). */
#define DECL_cmd_setcb(NAME) int NAME(verif_cmd_t *__cmd, jwt_callback_t cb, void *ctx) CMD_FRESH_OR_NULL \
__CPROVER_requires(__cmd == NULL || SPEC_ERRMSG_TERMINATED(__cmd)) \
__CPROVER_assigns(__cmd != NULL: __cmd->c.cb, __cmd->c.cb_ctx, __cmd->error, SPEC_ERRMSG_FRAME(__cmd)) \
__CPROVER_ensures(__cmd == NULL ==> __CPROVER_return_value == 1) \
__CPROVER_ensures((__cmd != NULL && cb == NULL && ctx != NULL && __CPROVER_old(__cmd->c.cb) == NULL) ==> \
	(__CPROVER_return_value == 1 && __cmd->error == 1 && __cmd->error_msg[0] != 0 && __cmd->c.cb == NULL && __cmd->c.cb_ctx == __CPROVER_old(__cmd->c.cb_ctx))) \
__CPROVER_ensures((__cmd != NULL && cb == NULL && ctx != NULL && __CPROVER_old(__cmd->c.cb) != NULL) ==> \
	(__CPROVER_return_value == 0 && __cmd->c.cb == __CPROVER_old(__cmd->c.cb) && __cmd->c.cb_ctx == ctx && __cmd->error == __CPROVER_old(__cmd->error))) \
__CPROVER_ensures((__cmd != NULL && !(cb == NULL && ctx != NULL)) ==> \
	(__CPROVER_return_value == 0 && __cmd->c.cb == cb && __cmd->c.cb_ctx == ctx && __cmd->error == __CPROVER_old(__cmd->error))) \
__CPROVER_ensures(__cmd == NULL || SPEC_ERRMSG_TERMINATED(__cmd))
DECL_cmd_setcb(contract_C13_cmd_setcb);
#define DECL_cmd_getctx(NAME) void *NAME(verif_cmd_t *__cmd) CMD_FRESH_OR_NULL __CPROVER_assigns() \
__CPROVER_ensures(__CPROVER_return_value == (__cmd == NULL ? (void *)0 : __cmd->c.cb_ctx))
DECL_cmd_getctx(contract_C13_cmd_getctx);
#endif

#ifdef VERIF_TU_CHECKER
/* ============ expected iss / sub / aud of a checker (C04) ================
 * claim_set(type, value): for iss/sub/aud the check is switched ON and the expected value is
 * stored under the claim's name with replace (most recent call wins); anything else is refused
 * and nothing changes.  claim_del(type): the check is switched OFF and the stored value removed.
 * The doers are replaced by the recording projections of their C15 contracts. */
#include "jwt_setget_c.h"
#define CLAIM_NAME_IS(n, a, b, c) ((n) != NULL && (n)[0] == (a) && (n)[1] == (b) && (n)[2] == (c) && (n)[3] == 0)
#define CLAIM_NAME_OK(type, n) ((type) == JWT_CLAIM_ISS ? CLAIM_NAME_IS(n, 'i', 's', 's') : (type) == JWT_CLAIM_SUB ? CLAIM_NAME_IS(n, 's', 'u', 'b') : CLAIM_NAME_IS(n, 'a', 'u', 'd'))
#define CLAIM_IS_STR3(type) ((type) == JWT_CLAIM_ISS || (type) == JWT_CLAIM_SUB || (type) == JWT_CLAIM_AUD)
extern int g_set_type, g_set_replace; extern const char *g_set_name, *g_set_str;
int contract_C04_jwt_checker_claim_set(jwt_checker_t *__cmd, jwt_claims_t type, const char *value)
CMD_FRESH_OR_NULL
__CPROVER_requires(g_doer_kind == 0)
__CPROVER_assigns(__cmd != NULL: __cmd->c.claims; g_doer_kind, g_doer_ret, g_doer_which, g_doer_arg, g_set_type, g_set_replace, g_set_name, g_set_str)
__CPROVER_ensures((__cmd == NULL || value == NULL || !CLAIM_IS_STR3(type)) ==> (__CPROVER_return_value == 1 && g_doer_kind == 0))
__CPROVER_ensures((__cmd != NULL && (value == NULL || !CLAIM_IS_STR3(type))) ==> __cmd->c.claims == __CPROVER_old(__cmd->c.claims))
__CPROVER_ensures((__cmd != NULL && value != NULL && CLAIM_IS_STR3(type)) ==> (
	__cmd->c.claims == (__CPROVER_old(__cmd->c.claims) | type) &&
	g_doer_kind == 2 && g_doer_which == __cmd->c.payload && g_set_type == JWT_VALUE_STR && g_set_replace == 1 &&
	g_set_str == value && CLAIM_NAME_OK(type, g_set_name) &&
	__CPROVER_return_value == (g_doer_ret != 0 ? 1 : 0)))
;
int contract_C04_jwt_checker_claim_del(jwt_checker_t *__cmd, jwt_claims_t type)
CMD_FRESH_OR_NULL
__CPROVER_requires(g_doer_kind == 0)
__CPROVER_assigns(__cmd != NULL: __cmd->c.claims; g_doer_kind, g_doer_ret, g_doer_which, g_doer_arg)
__CPROVER_ensures((__cmd == NULL || !CLAIM_IS_STR3(type)) ==> (__CPROVER_return_value == 1 && g_doer_kind == 0))
__CPROVER_ensures((__cmd != NULL && !CLAIM_IS_STR3(type)) ==> __cmd->c.claims == __CPROVER_old(__cmd->c.claims))
__CPROVER_ensures((__cmd != NULL && CLAIM_IS_STR3(type)) ==> __cmd->c.claims == (__CPROVER_old(__cmd->c.claims) & ~(unsigned)type))
__CPROVER_ensures((__cmd != NULL && CLAIM_IS_STR3(type)) ==> (g_doer_kind == 3 && g_doer_which == __cmd->c.payload))
__CPROVER_ensures((__cmd != NULL && CLAIM_IS_STR3(type)) ==> CLAIM_NAME_OK(type, (const char *)g_doer_arg))
__CPROVER_ensures((__cmd != NULL && CLAIM_IS_STR3(type)) ==> (int)__CPROVER_return_value == g_doer_ret)
;
#endif

#ifdef VERIF_TU_BUILDER
/* ============ builder header/claim wrappers (C10, C15) ====================
 * they hand exactly the builder's own headers resp. claims object and the caller's value to the
 * doer and return its answer; NULL arguments are INVALID (and stored in the value when there is one). */
#include "jwt_setget_c.h"
#define DECL_bwrapper(NAME, KIND, DOC) \
jwt_value_error_t NAME(jwt_builder_t *__cmd, jwt_value_t *value) \
CMD_FRESH_OR_NULL \
__CPROVER_requires(value == NULL || __CPROVER_is_fresh(value, sizeof(*value))) \
__CPROVER_requires(g_doer_kind == 0) \
__CPROVER_assigns(value != NULL: value->error; g_doer_kind, g_doer_ret, g_doer_which, g_doer_arg) \
__CPROVER_ensures((__cmd == NULL || value == NULL) ==> (__CPROVER_return_value == JWT_VALUE_ERR_INVALID && g_doer_kind == 0)) \
__CPROVER_ensures((__cmd == NULL && value != NULL) ==> value->error == JWT_VALUE_ERR_INVALID) \
__CPROVER_ensures((__cmd != NULL && value != NULL) ==> (g_doer_kind == (KIND) && g_doer_which == __cmd->c.DOC && g_doer_arg == value && \
	(int)__CPROVER_return_value == g_doer_ret))
DECL_bwrapper(contract_C15_jwt_builder_header_get, 1, headers);
DECL_bwrapper(contract_C15_jwt_builder_header_set, 2, headers);
DECL_bwrapper(contract_C15_jwt_builder_claim_get, 1, payload);
DECL_bwrapper(contract_C15_jwt_builder_claim_set, 2, payload);
#define DECL_bwrapper_del(NAME, DOC) \
jwt_value_error_t NAME(jwt_builder_t *__cmd, const char *field) \
CMD_FRESH_OR_NULL \
__CPROVER_requires(g_doer_kind == 0) \
__CPROVER_assigns(g_doer_kind, g_doer_ret, g_doer_which, g_doer_arg) \
__CPROVER_ensures(__cmd == NULL ==> (__CPROVER_return_value == JWT_VALUE_ERR_INVALID && g_doer_kind == 0)) \
__CPROVER_ensures(__cmd != NULL ==> (g_doer_kind == 3 && g_doer_which == __cmd->c.DOC && g_doer_arg == field && (int)__CPROVER_return_value == g_doer_ret))
DECL_bwrapper_del(contract_C15_jwt_builder_header_del, headers);
DECL_bwrapper_del(contract_C15_jwt_builder_claim_del, payload);
#endif
#endif
