#include "base64_c.h"
