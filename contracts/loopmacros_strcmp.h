/* macros for the loop invariant of jwt_strcmp (expanded by cc -E before being
 * handed to goto-instrument --loop-contracts-file) */
#define C1(j) ((j) < len1 ? str1[j] : 0)
#define C2(j) ((j) < len2 ? str2[j] : 0)
#define EQJ(j) (i <= (j) || C1(j) == C2(j))
#define PREFIX_EQ(i) (EQJ(0) && EQJ(1) && EQJ(2) && EQJ(3) && EQJ(4) && EQJ(5) && EQJ(6) && EQJ(7))
