/* jwks_c.h -- contracts for libjwt/jwks.c (properties C07, C08, C09, C17) */
#ifndef VERIF_JWKS_C_H
#define VERIF_JWKS_C_H
#include "jwk_parse_c.h"
#include "jwt_c.h"
#ifdef VERIF_TU_JWKS
static int process_octet(json_t *jwk, jwk_item_t *item);
static void jwk_process_values(json_t *jwk, jwk_item_t *item);
static jwk_item_t *jwk_process_one(jwk_set_t *jwk_set, json_t *jwk);
static jwk_set_t *jwks_process(jwk_set_t *jwk_set, json_t *j_all, json_error_t *error);
static int jwks_item_add(jwk_set_t *jwk_set, jwk_item_t *item);
static jwk_key_op_t jwk_key_op_j(json_t *j_op);

#endif

/* oct keys: the key bytes are the base64url decoding of "k", bits = 8 * length, symmetric keys are private */
int contract_C08_process_octet(json_t *jwk, jwk_item_t *item)
REQ_JWK(jwk, item)
__CPROVER_assigns(item->is_private_key, item->provider, item->oct.key, item->oct.len, item->bits, item->error, SPEC_ERRMSG_FRAME(item),
		  g_jwk_tracked_bin, g_dec_last_src, g_dec_last_res, g_dec_last_len)
__CPROVER_ensures(__CPROVER_return_value == 0 || __CPROVER_return_value == -1)
__CPROVER_ensures((__CPROVER_return_value != 0) == (item->error != 0))
__CPROVER_ensures(item->error != 0 ==> item->error_msg[0] != 0)
__CPROVER_ensures(item->error_msg[JWT_ERR_LEN - 1] == 0)
__CPROVER_ensures(__CPROVER_return_value == 0 ==> (item->is_private_key == 1 && item->provider == JWT_CRYPTO_OPS_ANY &&
	item->oct.key != NULL && item->oct.key == g_dec_last_res && g_dec_last_len >= 1 && item->oct.len == (size_t)g_dec_last_len && item->bits == 8 * (size_t)g_dec_last_len))
/* ... of exactly the text of member k */
__CPROVER_ensures((__CPROVER_return_value == 0 && TRACK1('k')) ==> (VJ_IS_STR(jwk) && g_dec_last_src == VJ_STR(jwk)))
__CPROVER_ensures((TRACK1('k') && !VJ_IS_STR(jwk)) ==> __CPROVER_return_value != 0)
;

/* the provider's JWK importers, as jwk_process_one sees them through jwt_ops */
/* shape of a provider importer: reads the JWK, writes the item's key fields; errors carry a
 * message, an item without error is a usable key (the real importers are proved against
 * this contract AND the detailed ones of jwk_parse_c.h) */
int contract_shape_process_jwk(json_t *jwk, jwk_item_t *item)
__CPROVER_requires(jwk != NULL && __CPROVER_r_ok(jwk, sizeof(json_t)) && __CPROVER_rw_ok(item, sizeof(*item)))
__CPROVER_requires(item->error == 0 && item->error_msg[0] == 0 && item->error_msg[JWT_ERR_LEN - 1] == 0)
__CPROVER_assigns(ITEM_FRAME(item), JWK_GHOSTS)
__CPROVER_ensures(item->error == 0 ==> (item->provider == JWT_CRYPTO_OPS_OPENSSL && item->provider_data != NULL))
__CPROVER_ensures(item->error != 0 ==> item->error_msg[0] != 0)
__CPROVER_ensures(item->error_msg[JWT_ERR_LEN - 1] == 0)
;
#define JWKS_OPS_OBEY (__CPROVER_is_fresh(jwt_ops, sizeof(*jwt_ops)) && \
	__CPROVER_obeys_contract(jwt_ops->process_rsa, contract_shape_process_jwk) && \
	__CPROVER_obeys_contract(jwt_ops->process_ec, contract_shape_process_jwk) && \
	__CPROVER_obeys_contract(jwt_ops->process_eddsa, contract_shape_process_jwk))
#define JWKS_TAKE_ADDRESSES do { void *volatile p1 = (void *)contract_shape_process_jwk; (void)p1; } while (0)

#define KTY_IS(s, a, b, c, d) ((s)[0] == (a) && (s)[1] == (b) && (((b) == 0) || ((s)[2] == (c) && (((c) == 0) || ((s)[3] == (d) && ((d) == 0 || (s)[4] == 0))))))
/* jwk_process_values: metadata extraction (shape: writes item metadata only, errors carry a message) */
#define PV_FRAME(item) (item)->alg, (item)->use, (item)->key_ops, (item)->kid, (item)->error, SPEC_ERRMSG_FRAME(item)
void contract_shape_jwk_process_values(json_t *jwk, jwk_item_t *item)
__CPROVER_requires(jwk != NULL && __CPROVER_r_ok(jwk, sizeof(json_t)) && jwk->type == JSON_OBJECT && jwk->refcount >= 1 && __CPROVER_rw_ok(item, sizeof(*item)))
__CPROVER_requires(item->error_msg[JWT_ERR_LEN - 1] == 0)
__CPROVER_assigns(PV_FRAME(item))
__CPROVER_ensures(item->error_msg[JWT_ERR_LEN - 1] == 0)
__CPROVER_ensures(item->error == __CPROVER_old(item->error) || item->error == 1)
__CPROVER_ensures(item->error != 0 ==> (item->error_msg[0] != 0 || __CPROVER_old(item->error) != 0))
__CPROVER_ensures(__CPROVER_old(item->error_msg[0]) != 0 ==> item->error_msg[0] != 0)
;
#ifdef VERIF_TU_JWKS
static jwk_key_op_t jwk_key_op_j(json_t *j_op);
static void jwk_process_values(json_t *jwk, jwk_item_t *item);
#endif
/* one entry of key_ops: none or exactly one operation bit; nothing is written */
extern const char *g_last_strlen_arg; extern json_t g_vj_elem; extern char g_vj_elem_str[12];
jwk_key_op_t contract_shape_jwk_key_op_j(json_t *j_op)
__CPROVER_requires(j_op == NULL || (__CPROVER_is_fresh(j_op, sizeof(json_t)) && j_op->type >= JSON_OBJECT && j_op->type <= JSON_NULL && j_op->refcount >= 1 && j_op->refcount < 1000))
__CPROVER_requires(j_op == NULL || j_op->type != JSON_STRING || (g_vj_len_d < 0x1000000 && __CPROVER_is_fresh(j_op->sval, g_vj_len_d + 1) && j_op->sval[g_vj_len_d] == 0))
__CPROVER_assigns()
__CPROVER_ensures(__CPROVER_return_value == JWK_KEY_OP_NONE || __CPROVER_return_value == JWK_KEY_OP_SIGN || __CPROVER_return_value == JWK_KEY_OP_VERIFY ||
	__CPROVER_return_value == JWK_KEY_OP_ENCRYPT || __CPROVER_return_value == JWK_KEY_OP_DECRYPT || __CPROVER_return_value == JWK_KEY_OP_WRAP ||
	__CPROVER_return_value == JWK_KEY_OP_UNWRAP || __CPROVER_return_value == JWK_KEY_OP_DERIVE_KEY || __CPROVER_return_value == JWK_KEY_OP_DERIVE_BITS)
;
/* the REAL jwk_process_values against the shape above (the frame is the point: kty-specific
 * fields such as curve, bits, pem, provider_data are out of its reach -- C08) plus what it
 * reports: alg by its exact RFC name, use "sig"/"enc" exactly, a non-string alg is an error */
/* members other than the tracked one are strings of up to PV_MAX_STR characters: the unit sets it to 2^33 so
 * that the copy of a kid is checked for EVERY length (defect F17: its length was kept in an int) */
#ifndef PV_MAX_STR
#define PV_MAX_STR 0x1000000
#endif
void contract_C08_jwk_process_values(json_t *jwk, jwk_item_t *item)
__CPROVER_requires(VJ_IS_OBJECT(jwk))
__CPROVER_requires(VJ_TRACKED_OK(jwk, g_vj_len_a))
__CPROVER_requires(__CPROVER_is_fresh(g_json_key, 8) && SHORT7(g_json_key) && g_json_key[0] != 0 && g_vj_len_c < PV_MAX_STR)
__CPROVER_requires(__CPROVER_is_fresh(item, sizeof(*item)) && item->error_msg[JWT_ERR_LEN - 1] == 0)
__CPROVER_requires(g_vj_len_d == 11)	/* length of the static array-element string of the jansson model */
__CPROVER_assigns(PV_FRAME(item), g_lib_fail, g_last_strlen, g_last_strlen_arg, g_vj_elem, __CPROVER_object_whole(g_vj_elem_str))
__CPROVER_ensures(item->error_msg[JWT_ERR_LEN - 1] == 0)
__CPROVER_ensures(item->error == __CPROVER_old(item->error) || item->error == 1)
__CPROVER_ensures(item->error != 0 ==> (item->error_msg[0] != 0 || __CPROVER_old(item->error) != 0))
__CPROVER_ensures(__CPROVER_old(item->error_msg[0]) != 0 ==> item->error_msg[0] != 0)
__CPROVER_ensures((TRACK3('a', 'l', 'g') && VJ_HAS(jwk) && !VJ_IS_STR(jwk)) ==> item->error != 0)
__CPROVER_ensures((TRACK3('a', 'l', 'g') && VJ_IS_STR(jwk) && item->alg != JWT_ALG_INVAL) ==> SPEC_NAME_IS(VJ_STR(jwk), item->alg))
__CPROVER_ensures((TRACK3('a', 'l', 'g') && !VJ_HAS(jwk)) ==> item->alg == __CPROVER_old(item->alg))
/* (a non-string alg ends the extraction early, with an error) */
__CPROVER_ensures((TRACK3('u', 's', 'e') && VJ_IS_STR(jwk) && KTY_IS(VJ_STR(jwk), 's', 'i', 'g', 0) && item->error == 0) ==> item->use == JWK_PUB_KEY_USE_SIG)
__CPROVER_ensures((TRACK3('u', 's', 'e') && VJ_IS_STR(jwk) && KTY_IS(VJ_STR(jwk), 'e', 'n', 'c', 0) && item->error == 0) ==> item->use == JWK_PUB_KEY_USE_ENC)
__CPROVER_ensures((TRACK3('u', 's', 'e') && !(VJ_IS_STR(jwk) && (KTY_IS(VJ_STR(jwk), 's', 'i', 'g', 0) || KTY_IS(VJ_STR(jwk), 'e', 'n', 'c', 0)))) ==> item->use == __CPROVER_old(item->use))
__CPROVER_ensures(item->kid == __CPROVER_old(item->kid) || item->kid == NULL || __CPROVER_is_fresh(item->kid, 1))
/* C08: a non-empty string kid is copied (the copy starts with the same character; its room is a CHECKED precondition of
 * the strcpy model), unless the allocator failed; anything else leaves kid alone */
__CPROVER_ensures((TRACK3('k', 'i', 'd') && VJ_IS_STR(jwk) && VJ_STR(jwk)[0] != 0 && g_lib_fail == 0 && item->error == 0) ==>
	(item->kid != NULL && item->kid != VJ_STR(jwk) && item->kid[0] == VJ_STR(jwk)[0]))
__CPROVER_ensures((TRACK3('k', 'i', 'd') && !(VJ_IS_STR(jwk) && VJ_STR(jwk)[0] != 0)) ==> item->kid == __CPROVER_old(item->kid))
;

/* jwk_process_one: one JWK object -> one item; the caller's JSON is only read */
jwk_item_t *contract_C07_jwk_process_one(jwk_set_t *jwk_set, json_t *jwk)
__CPROVER_requires(__CPROVER_is_fresh(jwk_set, sizeof(*jwk_set)) && jwk_set->error_msg[JWT_ERR_LEN - 1] == 0)
/* the entry of "keys" is ANY JSON value (C07: wrong JSON type in any position) */
__CPROVER_requires(__CPROVER_is_fresh(jwk, sizeof(vj_t)) && jwk->type >= JSON_OBJECT && jwk->type <= JSON_NULL && jwk->refcount >= 1 && jwk->refcount < 1000)
__CPROVER_requires(jwk->type == JSON_OBJECT || jwk->tracked == NULL)
__CPROVER_requires(VJ_TRACKED_OK(jwk, g_vj_len_a))
__CPROVER_requires(__CPROVER_is_fresh(g_json_key, 8) && SHORT7(g_json_key) && g_json_key[0] != 0 && g_vj_len_c < 0x1000000)
__CPROVER_requires(VJ_IS_STR(jwk) ==> g_jwk_tracked_str == VJ_STR(jwk))
__CPROVER_requires(!VJ_IS_STR(jwk) ==> g_jwk_tracked_str == NULL)
__CPROVER_requires(g_jwk_tracked_bin == NULL && g_push_name_of_tracked == NULL && g_push_count == 0 && g_lib_fail == 0 && g_ossl_bits <= 0x100000)
__CPROVER_requires(JWKS_OPS_OBEY)
__CPROVER_assigns(jwk_set->error, SPEC_ERRMSG_FRAME(jwk_set), JWK_GHOSTS)
/* C17: a NULL result (allocation failure) is reported on the set; the caller's JSON stays intact (frees nothing) */
__CPROVER_ensures(__CPROVER_return_value == NULL ==> (jwk_set->error != 0 && jwk_set->error_msg[0] != 0))
__CPROVER_ensures(jwk->type == __CPROVER_old(jwk->type) && jwk->refcount == __CPROVER_old(jwk->refcount))
/* C07: every entry yields an item -- no item only when the allocator failed */
__CPROVER_ensures(__CPROVER_return_value == NULL ==> g_lib_fail != 0)
/* C07: an entry that is not a JSON object yields an item that carries an error */
__CPROVER_ensures((__CPROVER_return_value != NULL && jwk->type != JSON_OBJECT) ==> __CPROVER_return_value->error != 0)
/* C07: the item either reports an error with a message or is a usable key object */
__CPROVER_ensures(__CPROVER_return_value != NULL ==> (__CPROVER_is_fresh(__CPROVER_return_value, sizeof(jwk_item_t)) &&
	(__CPROVER_return_value->error != 0 ==> __CPROVER_return_value->error_msg[0] != 0) &&
	(__CPROVER_return_value->error == 0 ==> (__CPROVER_return_value->kty != JWK_KEY_TYPE_NONE && __CPROVER_return_value->provider_data != NULL))))
/* C08: kty is reported as the JWK states it (exact names) */
__CPROVER_ensures((__CPROVER_return_value != NULL && TRACK3('k', 't', 'y') && __CPROVER_return_value->error == 0) ==> (VJ_IS_STR(jwk) &&
	(__CPROVER_return_value->kty == JWK_KEY_TYPE_EC ? KTY_IS(VJ_STR(jwk), 'E', 'C', 0, 0) :
	 __CPROVER_return_value->kty == JWK_KEY_TYPE_RSA ? KTY_IS(VJ_STR(jwk), 'R', 'S', 'A', 0) :
	 __CPROVER_return_value->kty == JWK_KEY_TYPE_OKP ? KTY_IS(VJ_STR(jwk), 'O', 'K', 'P', 0) :
	 KTY_IS(VJ_STR(jwk), 'o', 'c', 't', 0))))
;

#ifdef VERIF_TU_JWKS
/* ---- jwks_process: one item per element of "keys", in document order (C07) ----
 * jwk_process_one and jwks_item_add are replaced by RECORDING projections of their contracts
 * (the k-th call, for the arbitrary ghost index g_seq_k): what it was given, what it returned. */
static jwk_set_t *jwks_process(jwk_set_t *jwk_set, json_t *j_all, json_error_t *error);
extern unsigned g_p1_calls, g_add_calls, g_seq_k; extern const json_t *g_p1_arg_k; extern const jwk_item_t *g_p1_ret_k, *g_add_item_k;
#define SEQ_GHOSTS g_p1_calls, g_add_calls, g_p1_arg_k, g_p1_ret_k, g_add_item_k, g_setfree_calls
jwk_item_t *contract_rec_jwk_process_one(jwk_set_t *jwk_set, json_t *jwk)
__CPROVER_requires(__CPROVER_rw_ok(jwk_set, sizeof(*jwk_set)) && jwk_set->error_msg[JWT_ERR_LEN - 1] == 0)
__CPROVER_requires(jwk != NULL && __CPROVER_r_ok(jwk, sizeof(json_t)) && jwk->type >= JSON_OBJECT && jwk->type <= JSON_NULL && jwk->refcount >= 1)
__CPROVER_assigns(jwk_set->error, SPEC_ERRMSG_FRAME(jwk_set), g_lib_fail, g_p1_calls, g_p1_arg_k, g_p1_ret_k)
__CPROVER_ensures(g_p1_calls == __CPROVER_old(g_p1_calls) + 1)
__CPROVER_ensures(__CPROVER_old(g_p1_calls) == g_seq_k ==> (g_p1_arg_k == jwk && g_p1_ret_k == __CPROVER_return_value))
__CPROVER_ensures(__CPROVER_old(g_p1_calls) != g_seq_k ==> (g_p1_arg_k == __CPROVER_old(g_p1_arg_k) && g_p1_ret_k == __CPROVER_old(g_p1_ret_k)))
__CPROVER_ensures(__CPROVER_return_value == NULL ==> g_lib_fail != 0)	/* contract_C07_jwk_process_one */
__CPROVER_ensures(g_lib_fail == __CPROVER_old(g_lib_fail) || g_lib_fail == 1)
__CPROVER_ensures(jwk_set->error_msg[JWT_ERR_LEN - 1] == 0)
;
int contract_rec_jwks_item_add(jwk_set_t *jwk_set, jwk_item_t *item)
__CPROVER_requires(jwk_set != NULL && item != NULL)
__CPROVER_assigns(g_add_calls, g_add_item_k)
__CPROVER_ensures(__CPROVER_return_value == 0 && g_add_calls == __CPROVER_old(g_add_calls) + 1)
__CPROVER_ensures(__CPROVER_old(g_add_calls) == g_seq_k ==> g_add_item_k == item)
__CPROVER_ensures(__CPROVER_old(g_add_calls) != g_seq_k ==> g_add_item_k == __CPROVER_old(g_add_item_k))
;
/* jwks_process never releases the set it was handed (it may be the caller's own keyring): jwks_free as jwks_process
 * sees it only RECORDS the call -- the real one walks the ring (bounded C16 units) */
extern unsigned g_setfree_calls;
void contract_rec_jwks_free(jwk_set_t *jwk_set)
__CPROVER_assigns(g_setfree_calls)
__CPROVER_ensures(g_setfree_calls == __CPROVER_old(g_setfree_calls) + 1)
;
#define KEYS_TRACKED (g_json_key[0] == 'k' && g_json_key[1] == 'e' && g_json_key[2] == 'y' && g_json_key[3] == 's' && g_json_key[4] == 0)
jwk_set_t *contract_C07_jwks_process(jwk_set_t *jwk_set, json_t *j_all, json_error_t *error)
__CPROVER_requires(__CPROVER_is_fresh(jwk_set, sizeof(*jwk_set)) && jwk_set->error_msg[JWT_ERR_LEN - 1] == 0)
__CPROVER_requires(j_all == NULL || (__CPROVER_is_fresh(j_all, sizeof(vj_t)) && j_all->type >= JSON_OBJECT && j_all->type <= JSON_NULL && j_all->refcount >= 1 && j_all->refcount < 1000 &&
	(j_all->type == JSON_OBJECT || j_all->tracked == NULL)))
__CPROVER_requires(j_all == NULL || VJ_TRACKED_OK(j_all, g_vj_len_a))
__CPROVER_requires(j_all == NULL || j_all->tracked == NULL || j_all->tracked->asize < 0x100000)
__CPROVER_requires(__CPROVER_is_fresh(error, sizeof(*error)) && error->source[JSON_ERROR_SOURCE_LENGTH - 1] == 0 && error->text[JSON_ERROR_TEXT_LENGTH - 1] == 0)
__CPROVER_requires(__CPROVER_is_fresh(g_json_key, 8) && KEYS_TRACKED && g_vj_len_c < 0x1000000)
__CPROVER_requires(g_p1_calls == 0 && g_add_calls == 0 && g_lib_fail == 0 && g_p1_arg_k == NULL && g_p1_ret_k == NULL && g_add_item_k == NULL && g_setfree_calls == 0)
__CPROVER_assigns(jwk_set->error, SPEC_ERRMSG_FRAME(jwk_set), g_lib_fail, SEQ_GHOSTS, g_vj_elem, __CPROVER_object_whole(g_vj_elem_str))
__CPROVER_ensures(__CPROVER_return_value == jwk_set)
/* not JSON: the set carries an error and gains no items */
__CPROVER_ensures(j_all == NULL ==> (jwk_set->error != 0 && jwk_set->error_msg[0] != 0 && g_p1_calls == 0 && g_add_calls == 0))
/* no "keys" member: the document itself is the one key */
__CPROVER_ensures((j_all != NULL && j_all->tracked == NULL) ==> (g_p1_calls == 1 && (g_seq_k == 0 ==> g_p1_arg_k == j_all)))
/* a "keys" array of n elements: n entries processed ... */
__CPROVER_ensures((j_all != NULL && j_all->tracked != NULL && j_all->tracked->type == JSON_ARRAY) ==> g_p1_calls == j_all->tracked->asize)
/* ... a "keys" member that is not an array: nothing to process (json_array_size is 0) */
__CPROVER_ensures((j_all != NULL && j_all->tracked != NULL && j_all->tracked->type != JSON_ARRAY) ==> g_p1_calls == 0)
/* and, unless the allocator failed, every entry's item is appended, the k-th append being the k-th entry's item */
__CPROVER_ensures((j_all != NULL && g_lib_fail == 0) ==> (g_add_calls == g_p1_calls && (g_seq_k < g_p1_calls ==> (g_add_item_k == g_p1_ret_k && g_p1_ret_k != NULL))))
__CPROVER_ensures(g_add_calls <= g_p1_calls)
/* C17 / C07: whatever fails, the set handed in is still the caller's: it is never released here */
__CPROVER_ensures(g_setfree_calls == 0)
;
#endif


/* ======================= accessors (C08, C14, C16) ==========================
 * What an application OBSERVES of an imported key are these one-line getters; the import
 * contracts above say what the fields hold, these say the getters report exactly the fields
 * and write nothing. */
#define DECL_ITEM_GETTER(NAME, RET, EXPR) \
RET NAME(const jwk_item_t *item) \
__CPROVER_requires(__CPROVER_is_fresh(item, sizeof(*item))) \
__CPROVER_assigns() \
__CPROVER_ensures(__CPROVER_return_value == (EXPR))
DECL_ITEM_GETTER(contract_C08_jwks_item_is_private, int, item->is_private_key ? 1 : 0);
DECL_ITEM_GETTER(contract_C14_jwks_item_error, int, item->error);
DECL_ITEM_GETTER(contract_C14_jwks_item_error_msg, const char *, item->error_msg);
/* curve: NULL for keys that have none (RSA, oct), else the stored name */
DECL_ITEM_GETTER(contract_C08_jwks_item_curve, const char *, item->curve[0] ? item->curve : (const char *)0);
DECL_ITEM_GETTER(contract_C08_jwks_item_kid, const char *, item->kid);
DECL_ITEM_GETTER(contract_C08_jwks_item_alg, jwt_alg_t, item->alg);
DECL_ITEM_GETTER(contract_C08_jwks_item_kty, jwk_key_type_t, item->kty);
DECL_ITEM_GETTER(contract_C08_jwks_item_use, jwk_pub_key_use_t, item->use);
DECL_ITEM_GETTER(contract_C08_jwks_item_key_ops, jwk_key_op_t, item->key_ops);
DECL_ITEM_GETTER(contract_C08_jwks_item_pem, const char *, item->pem);
DECL_ITEM_GETTER(contract_C08_jwks_item_key_bits, int, (int)item->bits);
/* oct key bytes: handed out only when there are some; otherwise 1 and the outputs are untouched */
int contract_C08_jwks_item_key_oct(const jwk_item_t *item, const unsigned char **buf, size_t *len)
__CPROVER_requires(__CPROVER_is_fresh(item, sizeof(*item)) && __CPROVER_is_fresh(buf, sizeof(*buf)) && __CPROVER_is_fresh(len, sizeof(*len)))
__CPROVER_assigns(*buf, *len)
__CPROVER_ensures(__CPROVER_return_value == ((item->oct.key != NULL && item->oct.len != 0) ? 0 : 1))
__CPROVER_ensures(__CPROVER_return_value == 0 ==> (*buf == (const unsigned char *)item->oct.key && *len == item->oct.len))
__CPROVER_ensures(__CPROVER_return_value != 0 ==> (*buf == __CPROVER_old(*buf) && *len == __CPROVER_old(*len)))
;
int contract_C14_jwks_error(const jwk_set_t *jwk_set)
__CPROVER_requires(__CPROVER_is_fresh(jwk_set, sizeof(*jwk_set)))
__CPROVER_assigns()
__CPROVER_ensures(__CPROVER_return_value == (jwk_set->error ? 1 : 0))
;
const char *contract_C14_jwks_error_msg(const jwk_set_t *jwk_set)
__CPROVER_requires(__CPROVER_is_fresh(jwk_set, sizeof(*jwk_set)))
__CPROVER_assigns()
__CPROVER_ensures(__CPROVER_return_value == jwk_set->error_msg)
;
/* clearing: flag and message gone, the list untouched (frame) */
void contract_C14_jwks_error_clear(jwk_set_t *jwk_set)
__CPROVER_requires(__CPROVER_is_fresh(jwk_set, sizeof(*jwk_set)))
__CPROVER_assigns(jwk_set->error, __CPROVER_object_upto(jwk_set->error_msg, JWT_ERR_LEN))
__CPROVER_ensures(jwk_set->error == 0 && jwk_set->error_msg[0] == 0 && jwk_set->error_msg[JWT_ERR_LEN - 1] == 0)
__CPROVER_ensures(g_str_k < JWT_ERR_LEN ==> jwk_set->error_msg[g_str_k] == 0)
;
#ifdef VERIF_TU_JWKS
/* ---- the loaders: parse with JSON_DECODE_ANY, hand exactly that document to jwks_process once,
 * on the caller's set or on a fresh empty one; no input => NULL and nothing touched (C07) ---- */
static jwk_set_t *__jwks_load_strn(jwk_set_t *jwk_set, const char *jwk_json_str, const size_t len, int empty_allowed);
extern unsigned g_pr_calls; extern const jwk_set_t *g_pr_set; extern const json_t *g_pr_json;
jwk_set_t *contract_rec_jwks_process(jwk_set_t *jwk_set, json_t *j_all, json_error_t *error)
__CPROVER_requires(jwk_set != NULL && __CPROVER_rw_ok(jwk_set, sizeof(*jwk_set)) && jwk_set->error_msg[JWT_ERR_LEN - 1] == 0)
__CPROVER_requires(error != NULL && __CPROVER_r_ok(error, sizeof(*error)))
__CPROVER_requires(j_all == NULL || __CPROVER_r_ok(j_all, sizeof(json_t)))
__CPROVER_assigns(jwk_set->error, SPEC_ERRMSG_FRAME(jwk_set), g_pr_calls, g_pr_set, g_pr_json)
__CPROVER_ensures(__CPROVER_return_value == jwk_set && g_pr_calls == __CPROVER_old(g_pr_calls) + 1 && g_pr_set == jwk_set && g_pr_json == j_all)
;
#define LOADER_REQ \
__CPROVER_requires(jwk_set == NULL || (__CPROVER_is_fresh(jwk_set, sizeof(*jwk_set)) && jwk_set->error_msg[JWT_ERR_LEN - 1] == 0)) \
__CPROVER_requires(g_pr_calls == 0 && g_vj_len_c < 0x1000000)
#define LOADER_ASSIGNS __CPROVER_assigns(jwk_set != NULL: jwk_set->error, SPEC_ERRMSG_FRAME(jwk_set); g_pr_calls, g_pr_set, g_pr_json, JSON_LOAD_GHOSTS, g_lib_fail)
/* INPUT: the condition under which there is something to parse */
#define LOADER_ENS(INPUT) \
__CPROVER_ensures(g_pr_calls <= 1) \
__CPROVER_ensures(jwk_set != NULL ==> (__CPROVER_return_value == jwk_set || (__CPROVER_return_value == NULL && g_pr_calls == 0))) \
__CPROVER_ensures(g_pr_calls == 1 ==> ((INPUT) && __CPROVER_return_value != NULL && g_pr_set == __CPROVER_return_value && \
	g_pr_json == g_json_loaded && g_json_loads_flags == JSON_DECODE_ANY)) \
__CPROVER_ensures(((INPUT) && __CPROVER_return_value != NULL) ==> g_pr_calls == 1) \
/* a set made here starts out empty and without error */ \
__CPROVER_ensures((jwk_set == NULL && __CPROVER_return_value != NULL) ==> (__CPROVER_is_fresh(__CPROVER_return_value, sizeof(jwk_set_t)) && \
	__CPROVER_return_value->head.next == &__CPROVER_return_value->head && __CPROVER_return_value->head.prev == &__CPROVER_return_value->head && \
	(g_pr_calls == 0 ==> (__CPROVER_return_value->error == 0 && __CPROVER_return_value->error_msg[0] == 0))))
jwk_set_t *contract_C07___jwks_load_strn(jwk_set_t *jwk_set, const char *jwk_json_str, const size_t len, int empty_allowed)
LOADER_REQ
__CPROVER_requires(jwk_json_str == NULL || (len < 0x10000000 && __CPROVER_is_fresh(jwk_json_str, len + 1)))
LOADER_ASSIGNS
LOADER_ENS(jwk_json_str != NULL)
__CPROVER_ensures((jwk_json_str == NULL && !empty_allowed) ==> __CPROVER_return_value == NULL)
;
jwk_set_t *contract_C07_jwks_load_fromfile(jwk_set_t *jwk_set, const char *file_name)
LOADER_REQ
__CPROVER_requires(file_name == NULL || __CPROVER_is_fresh(file_name, 1))
LOADER_ASSIGNS
LOADER_ENS(file_name != NULL)
__CPROVER_ensures(file_name == NULL ==> __CPROVER_return_value == NULL)
;
jwk_set_t *contract_C07_jwks_load_fromfp(jwk_set_t *jwk_set, FILE *input)
LOADER_REQ
LOADER_ASSIGNS
LOADER_ENS(input != NULL)
__CPROVER_ensures(input == NULL ==> __CPROVER_return_value == NULL)
;
#endif

#ifdef VERIF_TU_JWKS
/* ---- the public forwarding wrappers: jwks_load / jwks_load_strn / jwks_create* hand exactly the
 * caller's set, text and its TRUE length to the loader, once; no text => NULL (load) or an empty
 * set (create).  The loaders are replaced by recording projections of their C07 contracts. ---- */
extern unsigned g_ls_calls; extern const jwk_set_t *g_ls_set; extern const void *g_ls_src; extern size_t g_ls_len; extern int g_ls_empty;
extern jwk_set_t *g_ls_ret; extern size_t g_last_strlen;
jwk_set_t *contract_rec___jwks_load_strn(jwk_set_t *jwk_set, const char *jwk_json_str, const size_t len, int empty_allowed)
__CPROVER_requires(jwk_json_str == NULL || (len < __CPROVER_OBJECT_SIZE(jwk_json_str) - __CPROVER_POINTER_OFFSET(jwk_json_str) && __CPROVER_r_ok(jwk_json_str, len)))
__CPROVER_assigns(g_ls_calls, g_ls_set, g_ls_src, g_ls_len, g_ls_empty, g_ls_ret)
__CPROVER_ensures(g_ls_calls == __CPROVER_old(g_ls_calls) + 1 && g_ls_set == jwk_set && g_ls_src == jwk_json_str && g_ls_len == len &&
	g_ls_empty == empty_allowed && g_ls_ret == __CPROVER_return_value)
;
#define DECL_rec_load_from(NAME, T) \
jwk_set_t *NAME(jwk_set_t *jwk_set, T src) \
__CPROVER_assigns(g_ls_calls, g_ls_set, g_ls_src, g_ls_ret) \
__CPROVER_ensures(g_ls_calls == __CPROVER_old(g_ls_calls) + 1 && g_ls_set == jwk_set && g_ls_src == (const void *)src && g_ls_ret == __CPROVER_return_value)
DECL_rec_load_from(contract_rec_jwks_load_fromfile, const char *);
DECL_rec_load_from(contract_rec_jwks_load_fromfp, FILE *);
#define WRAP_ASSIGNS __CPROVER_assigns(g_ls_calls, g_ls_set, g_ls_src, g_ls_len, g_ls_empty, g_ls_ret, g_last_strlen)
#define WRAP_ONCE(SET, SRC) (g_ls_calls == 1 && g_ls_set == (SET) && g_ls_src == (const void *)(SRC) && __CPROVER_return_value == g_ls_ret)
jwk_set_t *contract_C07_jwks_load_strn(jwk_set_t *jwk_set, const char *jwk_json_str, const size_t len)
__CPROVER_requires(g_ls_calls == 0 && (jwk_json_str == NULL || (len < 0x400000000 && __CPROVER_is_fresh(jwk_json_str, len + 1))))
WRAP_ASSIGNS
__CPROVER_ensures(WRAP_ONCE(jwk_set, jwk_json_str) && g_ls_len == len && g_ls_empty == 0)
;
/* jwks_load: the length handed on is the length of the text (for EVERY length a size_t can hold) */
jwk_set_t *contract_C07_jwks_load(jwk_set_t *jwk_set, const char *jwk_json_str)
__CPROVER_requires(g_ls_calls == 0 && (jwk_json_str == NULL || (g_vj_len_a < 0x400000000 && __CPROVER_is_fresh(jwk_json_str, g_vj_len_a + 1) && jwk_json_str[g_vj_len_a] == 0)))
WRAP_ASSIGNS
__CPROVER_ensures(jwk_json_str == NULL ==> (__CPROVER_return_value == NULL && g_ls_calls == 0))
__CPROVER_ensures(jwk_json_str != NULL ==> (WRAP_ONCE(jwk_set, jwk_json_str) && g_ls_len == g_last_strlen && g_ls_empty == 0))
;
jwk_set_t *contract_C07_jwks_create(const char *jwk_json_str)
__CPROVER_requires(g_ls_calls == 0 && (jwk_json_str == NULL || (g_vj_len_a < 0x400000000 && __CPROVER_is_fresh(jwk_json_str, g_vj_len_a + 1) && jwk_json_str[g_vj_len_a] == 0)))
WRAP_ASSIGNS
__CPROVER_ensures(WRAP_ONCE(NULL, jwk_json_str) && g_ls_empty == 1)
__CPROVER_ensures(jwk_json_str != NULL ==> g_ls_len == g_last_strlen)
;
jwk_set_t *contract_C07_jwks_create_strn(const char *jwk_json_str, const size_t len)
__CPROVER_requires(g_ls_calls == 0 && (jwk_json_str == NULL || (len < 0x400000000 && __CPROVER_is_fresh(jwk_json_str, len + 1))))
WRAP_ASSIGNS
__CPROVER_ensures(WRAP_ONCE(NULL, jwk_json_str) && g_ls_len == len && g_ls_empty == 0)
;
jwk_set_t *contract_C07_jwks_create_fromfile(const char *file_name)
__CPROVER_requires(g_ls_calls == 0)
WRAP_ASSIGNS
__CPROVER_ensures(WRAP_ONCE(NULL, file_name))
;
jwk_set_t *contract_C07_jwks_create_fromfp(FILE *input)
__CPROVER_requires(g_ls_calls == 0)
WRAP_ASSIGNS
__CPROVER_ensures(WRAP_ONCE(NULL, input))
;
#endif

#ifdef VERIF_TU_JWKS
/* ===================== C16: the list primitives as jwks.c uses them =====================
 * LOCAL shape contracts -- they mention only the nodes a primitive touches, so they hold for
 * keyrings of ANY length (unbounded; the walks over the whole list are the bounded C16 units):
 *   jwks_new       an empty ring (head linked to itself), no error;
 *   jwks_item_add  links the item between the current last node and the head, touching exactly
 *                  four pointers: "loads append at the tail";
 *   __item_free    unlinks exactly that node (its two neighbours now point at each other),
 *                  releases its kid, key material and JSON once, and frees the item. */
static jwk_set_t *jwks_new(void);
static void __item_free(jwk_item_t *todel);
extern ll_t *g_nb_prev, *g_nb_next;
jwk_set_t *contract_C16_jwks_new(void)
__CPROVER_assigns()
__CPROVER_ensures(__CPROVER_return_value == NULL || (__CPROVER_is_fresh(__CPROVER_return_value, sizeof(jwk_set_t)) &&
	__CPROVER_return_value->head.next == &__CPROVER_return_value->head && __CPROVER_return_value->head.prev == &__CPROVER_return_value->head &&
	__CPROVER_return_value->error == 0 && __CPROVER_return_value->error_msg[0] == 0 && __CPROVER_return_value->error_msg[JWT_ERR_LEN - 1] == 0))
;
/* NOTE on preconditions over CYCLIC structures: cbmc dereferences through value sets, and a
 * pointer whose value is only ASSUMED equal to the address of another object (requires p == &q)
 * has none -- writes through it would land in a phantom object.  The units of jwks_item_add and
 * __item_free therefore BUILD the neighbourhood of the node by assignment in their harness
 * (units/defs.py: every shape the requires clause admits, chosen nondeterministically) and the
 * requires clauses below restate it; ensures clauses dereference post-state pointers only. */
int contract_C16_jwks_item_add(jwk_set_t *jwk_set, jwk_item_t *item)
__CPROVER_requires(__CPROVER_rw_ok(jwk_set, sizeof(*jwk_set)) && __CPROVER_rw_ok(item, sizeof(*item)))
/* the ring is empty (head linked to itself), or its last node is an item; either way the last node's successor is the head */
__CPROVER_requires(__CPROVER_rw_ok(jwk_set->head.prev, sizeof(ll_t)) && jwk_set->head.prev->next == &jwk_set->head)
__CPROVER_requires(jwk_set->head.prev != &item->node && jwk_set->head.next != &item->node)
__CPROVER_assigns(item->node.next, item->node.prev, jwk_set->head.prev, jwk_set->head.prev->next)
__CPROVER_ensures(__CPROVER_return_value == 0)
__CPROVER_ensures(item->node.next == &jwk_set->head && jwk_set->head.prev == &item->node)
__CPROVER_ensures(item->node.prev == __CPROVER_old(jwk_set->head.prev))
/* (stated through item->node.prev, which the clause above identifies with the old last node) */
__CPROVER_ensures(item->node.prev->next == &item->node)
__CPROVER_ensures(__CPROVER_old(jwk_set->head.prev) != &jwk_set->head ==> jwk_set->head.next == __CPROVER_old(jwk_set->head.next))
__CPROVER_ensures(__CPROVER_old(jwk_set->head.prev) == &jwk_set->head ==> jwk_set->head.next == &item->node)
;
void contract_item_free_provider(jwk_item_t *item)
__CPROVER_requires(item != NULL && __CPROVER_rw_ok(item, sizeof(*item)))
__CPROVER_assigns(item->pem, item->provider_data, item->provider)
;
#define ITEM_FREE_TAKE_ADDRESSES do { void *volatile p2 = (void *)contract_item_free_provider; (void)p2; } while (0)
void contract_C16___item_free(jwk_item_t *todel)
__CPROVER_requires(__CPROVER_rw_ok(todel, sizeof(*todel)))
__CPROVER_requires(__CPROVER_is_fresh(jwt_ops, sizeof(*jwt_ops)) && __CPROVER_obeys_contract(jwt_ops->process_item_free, contract_item_free_provider))
__CPROVER_requires(todel->provider != JWT_CRYPTO_OPS_ANY || todel->oct.key == NULL || __CPROVER_is_fresh(todel->oct.key, 1))
__CPROVER_requires(todel->kid == NULL || __CPROVER_is_fresh(todel->kid, 1))
__CPROVER_requires(todel->json == NULL || (__CPROVER_is_fresh(todel->json, sizeof(vj_t)) && todel->json->type >= JSON_OBJECT && todel->json->type <= JSON_NULL &&
	todel->json->refcount >= 1 && todel->json->refcount < 1000 && todel->json->tracked == NULL))
/* its neighbours (two different nodes, or one and the same: the head of a one-item ring) point at it */
__CPROVER_requires(__CPROVER_rw_ok(todel->node.prev, sizeof(ll_t)) && __CPROVER_rw_ok(todel->node.next, sizeof(ll_t)))
__CPROVER_requires(todel->node.prev->next == &todel->node && todel->node.next->prev == &todel->node)
__CPROVER_requires(todel->node.prev != &todel->node && todel->node.next != &todel->node)
__CPROVER_requires(g_nb_prev == todel->node.prev && g_nb_next == todel->node.next)
__CPROVER_assigns(todel->oct.key, todel->kid, todel->json, todel->node.next, todel->node.prev, todel->pem, todel->provider,
		  todel->node.prev->next, todel->node.next->prev;
		  todel->json != NULL: __CPROVER_object_whole(todel->json))
__CPROVER_frees(todel, todel->kid; todel->provider == JWT_CRYPTO_OPS_ANY: todel->oct.key)
/* (the harness keeps the two neighbours in g_nb_prev / g_nb_next, assigned, so that they can be dereferenced here) */
__CPROVER_ensures(g_nb_prev->next == g_nb_next && g_nb_next->prev == g_nb_prev)
__CPROVER_ensures(__CPROVER_was_freed(todel))
__CPROVER_ensures(__CPROVER_old(todel->kid) == NULL || __CPROVER_was_freed(__CPROVER_old(todel->kid)))
;
#endif
#endif
