/* jwt_setget_c.h -- contracts for libjwt/jwt-setget.c (property C15, C14):
 * header/claim operations behave as a typed map.  Stated on the jansson model
 * (stubs/jansson.c): the member under the tracked key g_json_key (an ARBITRARY
 * name of at most 7 characters) is modelled exactly, so each clause holds for
 * every name. */
#ifndef VERIF_JWT_SETGET_C_H
#define VERIF_JWT_SETGET_C_H
#include "spec.h"
#include "jansson_model.h"
#include "jwt_memory_c.h"

VERIF_OBS_DECL(v_type) VERIF_OBS_DECL(v_replace) VERIF_OBS_DECL(m_has) VERIF_OBS_DECL(m_type) VERIF_OBS_DECL(name0) VERIF_OBS_DECL(key_0)

#define KEY_SHORT7 (__CPROVER_is_fresh(g_json_key, 8) && SHORT7(g_json_key) && g_json_key[0] != 0)
/* the request names the tracked key */
#define NAME_TRACKED(v) ((v)->name != NULL && STREQ8(g_json_key, (v)->name))
#define NAME_EMPTY(v) ((v)->name == NULL || (v)->name[0] == 0)

#define REQ_VALUE(value) \
__CPROVER_requires(__CPROVER_is_fresh(value, sizeof(*value))) \
__CPROVER_requires(value->name == NULL || (g_vj_len_d >= 8 && g_vj_len_d < 0x10000 && \
	__CPROVER_is_fresh(value->name, g_vj_len_d + 1) && value->name[g_vj_len_d] == 0)) \
__CPROVER_requires(KEY_SHORT7 && g_vj_len_c < 0x1000000)
#define REQ_WHICH(which) \
__CPROVER_requires(which == NULL || VJ_IS_OBJECT(which)) \
__CPROVER_requires(which == NULL || VJ_TRACKED_OK(which, g_vj_len_a))

#define SETGET_OBS(which, value) (OBS(v_type, (value)->type) && OBS(v_replace, (value)->replace) && \
	OBS(m_has, (which) != NULL && VJ_HAS(which)) && OBS(m_type, ((which) != NULL && VJ_HAS(which)) ? VJ_TYPE(which) : -1) && \
	OBS(name0, (value)->name ? (value)->name[0] : -1) && OBS(key_0, g_json_key[0]))

/* ---- __getter: NOEXIST / TYPE / the stored value ---- */
jwt_value_error_t contract_C15___getter(json_t *which, jwt_value_t *value)
REQ_WHICH(which)
REQ_VALUE(value)
__CPROVER_requires(value->type == JWT_VALUE_INT || value->type == JWT_VALUE_STR || value->type == JWT_VALUE_BOOL)
__CPROVER_requires(SETGET_OBS(which, value))
__CPROVER_assigns(value->error, value->int_val)
/* C14: the code returned is the code stored */
__CPROVER_ensures(__CPROVER_return_value == value->error)
__CPROVER_ensures(which == NULL ==> __CPROVER_return_value == JWT_VALUE_ERR_INVALID)
__CPROVER_ensures((which != NULL && NAME_EMPTY(value)) ==> __CPROVER_return_value == JWT_VALUE_ERR_INVALID)
__CPROVER_ensures((which != NULL && NAME_TRACKED(value) && !VJ_HAS(which)) ==> __CPROVER_return_value == JWT_VALUE_ERR_NOEXIST)
__CPROVER_ensures((which != NULL && NAME_TRACKED(value) && VJ_HAS(which)) ==> (
	__CPROVER_return_value == (
	 (value->type == JWT_VALUE_INT ? VJ_IS_INT(which) : value->type == JWT_VALUE_STR ? VJ_IS_STR(which) : VJ_IS_BOOL(which))
	 ? JWT_VALUE_ERR_NONE : JWT_VALUE_ERR_TYPE)))
__CPROVER_ensures((which != NULL && NAME_TRACKED(value) && __CPROVER_return_value == JWT_VALUE_ERR_NONE && value->type == JWT_VALUE_INT) ==>
	value->int_val == (long)VJ_INT(which))
__CPROVER_ensures((which != NULL && NAME_TRACKED(value) && __CPROVER_return_value == JWT_VALUE_ERR_NONE && value->type == JWT_VALUE_STR) ==>
	value->str_val == VJ_STR(which))
__CPROVER_ensures((which != NULL && NAME_TRACKED(value) && __CPROVER_return_value == JWT_VALUE_ERR_NONE && value->type == JWT_VALUE_BOOL) ==>
	value->bool_val == (VJ_TYPE(which) == JSON_TRUE ? 1 : 0))
;

/* ---- __getter, JSON values: the whole object (no name) or one member is serialised with sorted keys,
 *      compact unless pretty is asked for; the caller gets that text or NOEXIST / INVALID ---- */
jwt_value_error_t contract_C15___getter_json(json_t *which, jwt_value_t *value)
REQ_WHICH(which)
REQ_VALUE(value)
__CPROVER_requires(value->type == JWT_VALUE_JSON)
__CPROVER_requires(SETGET_OBS(which, value))
__CPROVER_assigns(value->error, value->json_val, g_json_dumps_flags, g_json_dumped)
__CPROVER_ensures(__CPROVER_return_value == value->error)
__CPROVER_ensures(which == NULL ==> __CPROVER_return_value == JWT_VALUE_ERR_INVALID)
__CPROVER_ensures((which != NULL && NAME_TRACKED(value) && !VJ_HAS(which)) ==> __CPROVER_return_value == JWT_VALUE_ERR_NOEXIST)
__CPROVER_ensures((which != NULL && __CPROVER_return_value == JWT_VALUE_ERR_NONE) ==> (value->json_val != NULL && value->json_val[0] != 0 &&
	g_json_dumps_flags == (JSON_SORT_KEYS | (value->pretty ? JSON_INDENT(4) : JSON_COMPACT))))
/* what was serialised: the object itself, or exactly the named member */
__CPROVER_ensures((which != NULL && NAME_EMPTY(value) && __CPROVER_return_value == JWT_VALUE_ERR_NONE) ==> g_json_dumped == which)
__CPROVER_ensures((which != NULL && NAME_TRACKED(value) && __CPROVER_return_value == JWT_VALUE_ERR_NONE) ==> g_json_dumped == which->tracked)
;

/* ---- __setter (scalar types): EXIST without replace changes nothing; replace overwrites;
 *      empty/absent name or NULL string is INVALID with no change ---- */
jwt_value_error_t contract_C15___setter(json_t *which, jwt_value_t *value)
REQ_WHICH(which)
REQ_VALUE(value)
__CPROVER_requires(value->type == JWT_VALUE_INT || value->type == JWT_VALUE_STR || value->type == JWT_VALUE_BOOL)
__CPROVER_requires(value->type != JWT_VALUE_STR || value->str_val == NULL ||
	(__CPROVER_is_fresh(value->str_val, g_vj_len_c + 1) && value->str_val[g_vj_len_c] == 0))
__CPROVER_requires(g_json_mutations < 1000)
__CPROVER_requires(SETGET_OBS(which, value))
__CPROVER_assigns(value->error, g_json_mutations, g_json_version; which != NULL: which->tracked;
		  which != NULL && which->tracked != NULL: __CPROVER_object_whole(which->tracked))
__CPROVER_ensures(__CPROVER_return_value == value->error)
__CPROVER_ensures(which == NULL ==> __CPROVER_return_value == JWT_VALUE_ERR_INVALID)
/* INVALID requests change nothing */
__CPROVER_ensures((which != NULL && (NAME_EMPTY(value) || (value->type == JWT_VALUE_STR && value->str_val == NULL))) ==>
	(__CPROVER_return_value == JWT_VALUE_ERR_INVALID && g_json_mutations == __CPROVER_old(g_json_mutations) &&
	 which->tracked == __CPROVER_old(which->tracked)))
/* existing name, no replace: EXIST and no mutator is called */
__CPROVER_ensures((which != NULL && NAME_TRACKED(value) && __CPROVER_old(which->tracked) != NULL && !value->replace &&
	!(value->type == JWT_VALUE_STR && value->str_val == NULL)) ==>
	(__CPROVER_return_value == JWT_VALUE_ERR_EXIST && g_json_mutations == __CPROVER_old(g_json_mutations) &&
	 which->tracked == __CPROVER_old(which->tracked)))
/* otherwise the value is stored (or the call fails on allocation): success means the map now holds it, typed */
__CPROVER_ensures((which != NULL && NAME_TRACKED(value) && __CPROVER_return_value == JWT_VALUE_ERR_NONE) ==> (
	which->tracked != NULL &&
	(value->type == JWT_VALUE_INT ==> (which->tracked->type == JSON_INTEGER && which->tracked->ival == value->int_val)) &&
	(value->type == JWT_VALUE_STR ==> (which->tracked->type == JSON_STRING && which->tracked->sval == value->str_val)) &&
	(value->type == JWT_VALUE_BOOL ==> (which->tracked->type == (value->bool_val ? JSON_TRUE : JSON_FALSE)))))
__CPROVER_ensures((which != NULL && !NAME_EMPTY(value) && !NAME_TRACKED(value)) ==> which->tracked == __CPROVER_old(which->tracked))
;

/* ---- __setter, JSON values: malformed / non-container text is refused with no change;
 *      whole-object set merges (all members with replace, missing-only without) ---- */
jwt_value_error_t contract_C15___setter_json(json_t *which, jwt_value_t *value)
__CPROVER_requires(VJ_IS_OBJECT(which))
__CPROVER_requires(VJ_TRACKED_OK(which, g_vj_len_a))
REQ_VALUE(value)
__CPROVER_requires(value->type == JWT_VALUE_JSON)
__CPROVER_requires(value->json_val == NULL || (g_vj_len_b < 0x1000000 && __CPROVER_is_fresh(value->json_val, g_vj_len_b + 1) && value->json_val[g_vj_len_b] == 0))
__CPROVER_requires(g_json_mutations < 1000)
__CPROVER_requires(SETGET_OBS(which, value))
__CPROVER_assigns(value->error, g_json_mutations, g_json_version, JSON_LOAD_GHOSTS, g_json_update_kind,
		  which->tracked; which->tracked != NULL: __CPROVER_object_whole(which->tracked))
__CPROVER_ensures(__CPROVER_return_value == value->error)
/* text that does not load as an object or array: INVALID, nothing changes */
__CPROVER_ensures(g_json_loaded == NULL ==> (__CPROVER_return_value == JWT_VALUE_ERR_INVALID &&
	g_json_mutations == __CPROVER_old(g_json_mutations) && which->tracked == __CPROVER_old(which->tracked)))
/* duplicates in the text are rejected by the parser (flag passed to jansson) */
__CPROVER_ensures(g_json_loads_flags == JSON_REJECT_DUPLICATES)
/* whole-object set: merge */
__CPROVER_ensures((g_json_loaded != NULL && NAME_EMPTY(value) && __CPROVER_return_value == JWT_VALUE_ERR_NONE) ==> (
	g_json_update_kind == (value->replace ? 1 : 2) &&
	(value->replace ? (g_json_loaded_tracked != NULL ? which->tracked == g_json_loaded_tracked : which->tracked == __CPROVER_old(which->tracked))
			: (__CPROVER_old(which->tracked) != NULL ? which->tracked == __CPROVER_old(which->tracked)
			   : which->tracked == g_json_loaded_tracked))))
/* named JSON value: same existence/replace gate as scalars */
__CPROVER_ensures((g_json_loaded != NULL && NAME_TRACKED(value) && __CPROVER_old(which->tracked) != NULL && !value->replace) ==>
	(__CPROVER_return_value == JWT_VALUE_ERR_EXIST && g_json_mutations == __CPROVER_old(g_json_mutations) &&
	 which->tracked == __CPROVER_old(which->tracked)))
__CPROVER_ensures((g_json_loaded != NULL && NAME_TRACKED(value) && __CPROVER_return_value == JWT_VALUE_ERR_NONE) ==> which->tracked == g_json_loaded)
;

/* ---- __deleter: one name, or everything when no name is given ---- */
jwt_value_error_t contract_C15___deleter(json_t *which, const char *field)
__CPROVER_requires(VJ_IS_OBJECT(which))
__CPROVER_requires(VJ_TRACKED_OK(which, g_vj_len_a))
__CPROVER_requires(field == NULL || (g_vj_len_d >= 8 && g_vj_len_d < 0x10000 && __CPROVER_is_fresh(field, g_vj_len_d + 1) && field[g_vj_len_d] == 0))
__CPROVER_requires(KEY_SHORT7 && g_json_mutations < 1000)
__CPROVER_assigns(g_json_mutations, g_json_version, which->tracked; which->tracked != NULL: __CPROVER_object_whole(which->tracked))
__CPROVER_ensures(__CPROVER_return_value == JWT_VALUE_ERR_NONE)
__CPROVER_ensures((field == NULL || field[0] == 0) ==> which->tracked == NULL)
__CPROVER_ensures((field != NULL && field[0] != 0 && STREQ8(g_json_key, field)) ==> which->tracked == NULL)
__CPROVER_ensures((field != NULL && field[0] != 0 && !STREQ8(g_json_key, field)) ==> which->tracked == __CPROVER_old(which->tracked))
;

/* ---- the public wrappers jwt_header_* / jwt_claim_* -> __run_it -> doer: they hand exactly the
 * token's header resp. claims object and the caller's value to the doer and return its answer;
 * NULL arguments are INVALID.  The doers are replaced by RECORDING projections of their C15
 * contracts (which object, which value, which answer). ---- */
extern int g_doer_kind, g_doer_ret; extern const json_t *g_doer_which; extern const void *g_doer_arg;
#define DECL_rec_doer(NAME, KIND) \
jwt_value_error_t NAME(json_t *which, jwt_value_t *value) \
__CPROVER_requires(value != NULL && __CPROVER_rw_ok(value, sizeof(*value))) \
__CPROVER_assigns(value->error, g_doer_kind, g_doer_ret, g_doer_which, g_doer_arg) \
__CPROVER_ensures(g_doer_kind == (KIND) && g_doer_which == which && g_doer_arg == value && g_doer_ret == (int)__CPROVER_return_value)
DECL_rec_doer(contract_rec___getter, 1);
DECL_rec_doer(contract_rec___setter, 2);
jwt_value_error_t contract_rec___deleter(json_t *which, const char *field)
__CPROVER_assigns(g_doer_kind, g_doer_ret, g_doer_which, g_doer_arg)
__CPROVER_ensures(g_doer_kind == 3 && g_doer_which == which && g_doer_arg == field && g_doer_ret == (int)__CPROVER_return_value)
;
#define DECL_wrapper(NAME, KIND, DOC) \
jwt_value_error_t NAME(jwt_t *jwt, jwt_value_t *value) \
__CPROVER_requires(jwt == NULL || __CPROVER_is_fresh(jwt, sizeof(*jwt))) \
__CPROVER_requires(value == NULL || __CPROVER_is_fresh(value, sizeof(*value))) \
__CPROVER_requires(g_doer_kind == 0) \
__CPROVER_assigns(value != NULL: value->error; g_doer_kind, g_doer_ret, g_doer_which, g_doer_arg) \
__CPROVER_ensures((jwt == NULL || value == NULL) ==> (__CPROVER_return_value == JWT_VALUE_ERR_INVALID && g_doer_kind == 0)) \
__CPROVER_ensures((jwt == NULL && value != NULL) ==> value->error == JWT_VALUE_ERR_INVALID) \
__CPROVER_ensures((jwt != NULL && value != NULL) ==> (g_doer_kind == (KIND) && g_doer_which == jwt->DOC && g_doer_arg == value && \
	(int)__CPROVER_return_value == g_doer_ret))
DECL_wrapper(contract_C15_jwt_header_get, 1, headers);
DECL_wrapper(contract_C15_jwt_header_set, 2, headers);
DECL_wrapper(contract_C15_jwt_claim_get, 1, claims);
DECL_wrapper(contract_C15_jwt_claim_set, 2, claims);
#define DECL_wrapper_del(NAME, DOC) \
jwt_value_error_t NAME(jwt_t *jwt, const char *field) \
__CPROVER_requires(jwt == NULL || __CPROVER_is_fresh(jwt, sizeof(*jwt))) \
__CPROVER_requires(g_doer_kind == 0) \
__CPROVER_assigns(g_doer_kind, g_doer_ret, g_doer_which, g_doer_arg) \
__CPROVER_ensures(jwt == NULL ==> (__CPROVER_return_value == JWT_VALUE_ERR_INVALID && g_doer_kind == 0)) \
__CPROVER_ensures(jwt != NULL ==> (g_doer_kind == 3 && g_doer_which == jwt->DOC && g_doer_arg == field && (int)__CPROVER_return_value == g_doer_ret))
DECL_wrapper_del(contract_C15_jwt_header_del, headers);
DECL_wrapper_del(contract_C15_jwt_claim_del, claims);
#endif
