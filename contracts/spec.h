/* spec.h -- specification tables written from RFC 7518 / RFC 7517 / RFC 4648
 * and the API documentation in include/jwt.h -- NOT from the code under
 * verification.  Contracts state postconditions in terms of these. */
#ifndef VERIF_SPEC_H
#define VERIF_SPEC_H

#include <jwt.h>
#include "jwt-private.h"

/* ---- algorithm families (RFC 7518 section 3.1) ---- */
#define SPEC_IS_HS(a) ((a) == JWT_ALG_HS256 || (a) == JWT_ALG_HS384 || (a) == JWT_ALG_HS512)
#define SPEC_IS_RS(a) ((a) == JWT_ALG_RS256 || (a) == JWT_ALG_RS384 || (a) == JWT_ALG_RS512)
#define SPEC_IS_PS(a) ((a) == JWT_ALG_PS256 || (a) == JWT_ALG_PS384 || (a) == JWT_ALG_PS512)
#define SPEC_IS_ES(a) ((a) == JWT_ALG_ES256 || (a) == JWT_ALG_ES384 || (a) == JWT_ALG_ES512 || (a) == JWT_ALG_ES256K)
#define SPEC_IS_ED(a) ((a) == JWT_ALG_EDDSA)
#define SPEC_IS_ASYM(a) (SPEC_IS_RS(a) || SPEC_IS_PS(a) || SPEC_IS_ES(a) || SPEC_IS_ED(a))
#define SPEC_IS_SIGNING(a) (SPEC_IS_HS(a) || SPEC_IS_ASYM(a))
#define SPEC_ALG_IN_ENUM(a) ((a) >= JWT_ALG_NONE && (a) <= JWT_ALG_INVAL)
#define SPEC_ALG_KNOWN(a) ((a) >= JWT_ALG_NONE && (a) < JWT_ALG_INVAL)

/* key family an algorithm may be evaluated with (property C02) */
#define SPEC_KTY_FOR(a) (SPEC_IS_HS(a) ? JWK_KEY_TYPE_OCT : \
			 (SPEC_IS_RS(a) || SPEC_IS_PS(a)) ? JWK_KEY_TYPE_RSA : \
			 SPEC_IS_ES(a) ? JWK_KEY_TYPE_EC : \
			 SPEC_IS_ED(a) ? JWK_KEY_TYPE_OKP : JWK_KEY_TYPE_NONE)

/* ---- key-strength floor (property C09; RFC 7518 3.2, 3.3, 3.4, RFC 8037) ---- */
/* HMAC: key at least as long as the hash output */
#define SPEC_HMAC_FLOOR(a) ((a) == JWT_ALG_HS256 ? 256 : (a) == JWT_ALG_HS384 ? 384 : (a) == JWT_ALG_HS512 ? 512 : 0)
#define SPEC_HMAC_OK(a, bits) (SPEC_IS_HS(a) && (bits) >= (size_t)SPEC_HMAC_FLOOR(a))
/* asymmetric keys */
#define SPEC_ASYM_OK(a, bits) ( \
	((SPEC_IS_RS(a) || SPEC_IS_PS(a)) && (bits) >= 2048) || \
	(((a) == JWT_ALG_ES256 || (a) == JWT_ALG_ES256K) && (bits) == 256) || \
	((a) == JWT_ALG_ES384 && (bits) == 384) || \
	((a) == JWT_ALG_ES512 && (bits) == 521) || \
	((a) == JWT_ALG_EDDSA && ((bits) == 256 || (bits) == 456)))

/* hash an algorithm is computed with: 256 / 384 / 512, 0 = none (EdDSA) */
#define SPEC_HASH_BITS(a) ( \
	((a) == JWT_ALG_HS256 || (a) == JWT_ALG_RS256 || (a) == JWT_ALG_PS256 || (a) == JWT_ALG_ES256 || (a) == JWT_ALG_ES256K) ? 256 : \
	((a) == JWT_ALG_HS384 || (a) == JWT_ALG_RS384 || (a) == JWT_ALG_PS384 || (a) == JWT_ALG_ES384) ? 384 : \
	((a) == JWT_ALG_HS512 || (a) == JWT_ALG_RS512 || (a) == JWT_ALG_PS512 || (a) == JWT_ALG_ES512) ? 512 : 0)

/* ---- setkey admission table (documented at jwt_builder_setkey in jwt.h) ----
 *   alg      key            result
 *   none     NULL           ok (unsigned)
 *   X!=none  NULL           refused
 *   none     key w/o alg    refused
 *   X!=none  key w/o alg    ok (X is pinned)
 *   none     key with alg K ok (K is pinned)
 *   X        key with alg K ok iff X == K
 * the pinned algorithm: */
#define SPEC_SETKEY_OK(alg, haskey, keyalg) ( \
	(!(haskey) && (alg) == JWT_ALG_NONE) || \
	((haskey) && (keyalg) == JWT_ALG_NONE && (alg) != JWT_ALG_NONE) || \
	((haskey) && (keyalg) != JWT_ALG_NONE && ((alg) == JWT_ALG_NONE || (alg) == (keyalg))))
/* x is the pinned algorithm of the pair (alg, key): the explicit algorithm,
 * otherwise the key's own alg attribute, otherwise none */
#define SPEC_IS_PINNED(x, alg, haskey, keyalg) ( \
	((alg) != JWT_ALG_NONE && (x) == (alg)) || \
	((alg) == JWT_ALG_NONE && (haskey) && (x) == (keyalg)) || \
	((alg) == JWT_ALG_NONE && !(haskey) && (x) == JWT_ALG_NONE))
#define SPEC_PINNED_ALG(alg, haskey, keyalg) \
	((alg) != JWT_ALG_NONE ? (alg) : ((haskey) ? (keyalg) : JWT_ALG_NONE))

/* ---- JWS algorithm names, RFC 7518 section 3.1 / RFC 8037 / RFC 8812 ---- */
#define LIT4(s, a, b, c, d) ((s)[0] == (a) && (s)[1] == (b) && (s)[2] == (c) && (s)[3] == (d) && (s)[4] == 0)
#define LIT5(s, a, b, c, d, e) ((s)[0] == (a) && (s)[1] == (b) && (s)[2] == (c) && (s)[3] == (d) && (s)[4] == (e) && (s)[5] == 0)
#define LIT6(s, a, b, c, d, e, f) ((s)[0] == (a) && (s)[1] == (b) && (s)[2] == (c) && (s)[3] == (d) && (s)[4] == (e) && (s)[5] == (f) && (s)[6] == 0)
#define SPEC_NAME_IS(s, alg) ( \
	(alg) == JWT_ALG_NONE ? LIT4(s, 'n', 'o', 'n', 'e') : \
	(alg) == JWT_ALG_HS256 ? LIT5(s, 'H', 'S', '2', '5', '6') : \
	(alg) == JWT_ALG_HS384 ? LIT5(s, 'H', 'S', '3', '8', '4') : \
	(alg) == JWT_ALG_HS512 ? LIT5(s, 'H', 'S', '5', '1', '2') : \
	(alg) == JWT_ALG_RS256 ? LIT5(s, 'R', 'S', '2', '5', '6') : \
	(alg) == JWT_ALG_RS384 ? LIT5(s, 'R', 'S', '3', '8', '4') : \
	(alg) == JWT_ALG_RS512 ? LIT5(s, 'R', 'S', '5', '1', '2') : \
	(alg) == JWT_ALG_ES256 ? LIT5(s, 'E', 'S', '2', '5', '6') : \
	(alg) == JWT_ALG_ES384 ? LIT5(s, 'E', 'S', '3', '8', '4') : \
	(alg) == JWT_ALG_ES512 ? LIT5(s, 'E', 'S', '5', '1', '2') : \
	(alg) == JWT_ALG_PS256 ? LIT5(s, 'P', 'S', '2', '5', '6') : \
	(alg) == JWT_ALG_PS384 ? LIT5(s, 'P', 'S', '3', '8', '4') : \
	(alg) == JWT_ALG_PS512 ? LIT5(s, 'P', 'S', '5', '1', '2') : \
	(alg) == JWT_ALG_ES256K ? LIT6(s, 'E', 'S', '2', '5', '6', 'K') : \
	(alg) == JWT_ALG_EDDSA ? LIT5(s, 'E', 'd', 'D', 'S', 'A') : 0)
/* the algorithm a header/JWK "alg" text denotes: exact, case-sensitive */
#define SPEC_STR_ALG(s) ( \
	SPEC_NAME_IS(s, JWT_ALG_NONE) ? JWT_ALG_NONE : SPEC_NAME_IS(s, JWT_ALG_HS256) ? JWT_ALG_HS256 : \
	SPEC_NAME_IS(s, JWT_ALG_HS384) ? JWT_ALG_HS384 : SPEC_NAME_IS(s, JWT_ALG_HS512) ? JWT_ALG_HS512 : \
	SPEC_NAME_IS(s, JWT_ALG_RS256) ? JWT_ALG_RS256 : SPEC_NAME_IS(s, JWT_ALG_RS384) ? JWT_ALG_RS384 : \
	SPEC_NAME_IS(s, JWT_ALG_RS512) ? JWT_ALG_RS512 : SPEC_NAME_IS(s, JWT_ALG_ES256) ? JWT_ALG_ES256 : \
	SPEC_NAME_IS(s, JWT_ALG_ES384) ? JWT_ALG_ES384 : SPEC_NAME_IS(s, JWT_ALG_ES512) ? JWT_ALG_ES512 : \
	SPEC_NAME_IS(s, JWT_ALG_PS256) ? JWT_ALG_PS256 : SPEC_NAME_IS(s, JWT_ALG_PS384) ? JWT_ALG_PS384 : \
	SPEC_NAME_IS(s, JWT_ALG_PS512) ? JWT_ALG_PS512 : SPEC_NAME_IS(s, JWT_ALG_ES256K) ? JWT_ALG_ES256K : \
	SPEC_NAME_IS(s, JWT_ALG_EDDSA) ? JWT_ALG_EDDSA : JWT_ALG_INVAL)

/* a C string inside an object, terminated at its last byte at the latest */
#define SPEC_ERRMSG_TERMINATED(o) ((o)->error_msg[JWT_ERR_LEN - 1] == 0)

/* frame target: exactly the message buffer of an object (NOT
 * __CPROVER_object_whole, which would be the whole enclosing struct) */
#define SPEC_ERRMSG_FRAME(o) __CPROVER_object_upto((o)->error_msg, JWT_ERR_LEN)

/* the error flag only ever goes from clear to set, and a set flag comes with a
 * non-empty message; an existing message is never erased (jwt_write_error) */
#define SPEC_ERR_MONOTONE(o) \
__CPROVER_ensures((o)->error == __CPROVER_old((o)->error) || (o)->error == 1) \
__CPROVER_ensures((o)->error != __CPROVER_old((o)->error) ==> (o)->error_msg[0] != 0) \
__CPROVER_ensures(__CPROVER_old((o)->error_msg[0]) != 0 ==> (o)->error_msg[0] != 0) \
/* a message is only ever written together with the flag */ \
__CPROVER_ensures((o)->error_msg[0] == __CPROVER_old((o)->error_msg[0]) || (o)->error == 1)

#endif
