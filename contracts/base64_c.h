/* base64_c.h -- contracts for libjwt/base64.c and the base64url wrappers in
 * libjwt/jwt.c (property C11).  The alphabet below is written from RFC 4648
 * (section 4 table 1, section 5 table 2), not from base64.c. */
#ifndef VERIF_BASE64_C_H
#define VERIF_BASE64_C_H
#include "spec.h"
#include "base64.h"

/* value 0..63 -> character */
#define SPEC_B64_CHAR(v) ((char)((v) < 26 ? 'A' + (v) : (v) < 52 ? 'a' + ((v) - 26) : (v) < 62 ? '0' + ((v) - 52) : (v) == 62 ? '+' : '/'))
#define SPEC_B64URL_CHAR(v) ((char)((v) < 26 ? 'A' + (v) : (v) < 52 ? 'a' + ((v) - 26) : (v) < 62 ? '0' + ((v) - 52) : (v) == 62 ? '-' : '_'))
/* character -> value, -1 if outside the standard alphabet */
#define SPEC_B64_VAL(c) (((c) >= 'A' && (c) <= 'Z') ? (c) - 'A' : ((c) >= 'a' && (c) <= 'z') ? (c) - 'a' + 26 : \
			 ((c) >= '0' && (c) <= '9') ? (c) - '0' + 52 : (c) == '+' ? 62 : (c) == '/' ? 63 : -1)
#define SPEC_ENC_LEN(n) (4 * (((n) + 2) / 3))
/* the four characters of the block (a, b, c) */
#define SPEC_ENC0(a, b, c) SPEC_B64_CHAR(((a) >> 2) & 0x3f)
#define SPEC_ENC1(a, b, c) SPEC_B64_CHAR((((a) & 0x3) << 4) | (((b) >> 4) & 0xf))
#define SPEC_ENC2(a, b, c) SPEC_B64_CHAR((((b) & 0xf) << 2) | (((c) >> 6) & 0x3))
#define SPEC_ENC3(a, b, c) SPEC_B64_CHAR((c) & 0x3f)

#define B64_IN_MAX 0x5ffffffdu
/* base64_decode is reached with every text jwt_base64uri_decode admits: up to INT_MAX - 4 characters plus padding */
#define B64_DEC_IN_MAX 0x7ffffffcu
extern size_t g_b64_g;	/* ghost block index */

/* base64_encode, shape: bounds, length, terminator (unbounded input length) */
unsigned int contract_C11shape_base64_encode(const unsigned char *in, unsigned int inlen, char *out)
__CPROVER_requires(inlen <= B64_IN_MAX)
__CPROVER_requires(inlen == 0 || __CPROVER_r_ok(in, inlen))
__CPROVER_requires(__CPROVER_w_ok(out, (size_t)SPEC_ENC_LEN((size_t)inlen) + 1))
__CPROVER_assigns(__CPROVER_object_whole(out))
__CPROVER_ensures(__CPROVER_return_value == SPEC_ENC_LEN(inlen))
__CPROVER_ensures(out[__CPROVER_return_value] == 0)
;

/* base64_encode: bounds, length, terminator, and every full block (ghost block
 * index) equals the RFC table applied to its three input bytes */
unsigned int contract_C11_base64_encode(const unsigned char *in, unsigned int inlen, char *out)
__CPROVER_requires(inlen <= B64_IN_MAX)
__CPROVER_requires(inlen == 0 || __CPROVER_r_ok(in, inlen))
__CPROVER_requires(__CPROVER_w_ok(out, (size_t)SPEC_ENC_LEN((size_t)inlen) + 1))
__CPROVER_assigns(__CPROVER_object_whole(out))
__CPROVER_ensures(__CPROVER_return_value == SPEC_ENC_LEN(inlen))
__CPROVER_ensures(out[__CPROVER_return_value] == 0)
__CPROVER_ensures((g_b64_g < inlen / 3) ==> (
	out[4 * g_b64_g] == SPEC_ENC0(in[3 * g_b64_g], in[3 * g_b64_g + 1], in[3 * g_b64_g + 2]) &&
	out[4 * g_b64_g + 1] == SPEC_ENC1(in[3 * g_b64_g], in[3 * g_b64_g + 1], in[3 * g_b64_g + 2]) &&
	out[4 * g_b64_g + 2] == SPEC_ENC2(in[3 * g_b64_g], in[3 * g_b64_g + 1], in[3 * g_b64_g + 2]) &&
	out[4 * g_b64_g + 3] == SPEC_ENC3(in[3 * g_b64_g], in[3 * g_b64_g + 1], in[3 * g_b64_g + 2])))
/* tails: one byte -> "xx==", two bytes -> "xxx=" */
__CPROVER_ensures((inlen % 3 == 1) ==> (
	out[__CPROVER_return_value - 4] == SPEC_ENC0(in[inlen - 1], 0, 0) &&
	out[__CPROVER_return_value - 3] == SPEC_ENC1(in[inlen - 1], 0, 0) &&
	out[__CPROVER_return_value - 2] == '=' && out[__CPROVER_return_value - 1] == '='))
__CPROVER_ensures((inlen % 3 == 2) ==> (
	out[__CPROVER_return_value - 4] == SPEC_ENC0(in[inlen - 2], in[inlen - 1], 0) &&
	out[__CPROVER_return_value - 3] == SPEC_ENC1(in[inlen - 2], in[inlen - 1], 0) &&
	out[__CPROVER_return_value - 2] == SPEC_ENC2(in[inlen - 2], in[inlen - 1], 0) &&
	out[__CPROVER_return_value - 1] == '='))
;

/* base64_decode: bounds and result length; 0 when inlen is not a multiple of 4 */
unsigned int contract_C11_base64_decode(const char *in, unsigned int inlen, unsigned char *out)
__CPROVER_requires(inlen <= B64_DEC_IN_MAX)
__CPROVER_requires(inlen == 0 || __CPROVER_r_ok(in, inlen))
/* (the one caller, jwt_base64uri_decode, passes a buffer of 3*(inlen/4)+1 bytes) */
__CPROVER_requires(__CPROVER_w_ok(out, (size_t)3 * (inlen / 4) + 1))
__CPROVER_assigns(__CPROVER_object_whole(out))
__CPROVER_ensures(__CPROVER_return_value <= 3 * (inlen / 4))
__CPROVER_ensures((inlen & 3) != 0 ==> __CPROVER_return_value == 0)
;
#endif
