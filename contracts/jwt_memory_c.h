/* jwt_memory_c.h -- contracts for libjwt/jwt-memory.c */
#ifndef VERIF_JWT_MEMORY_C_H
#define VERIF_JWT_MEMORY_C_H
#include "spec.h"
extern size_t g_str_k;

/* A string of at most 7 characters (all names libjwt compares against are) */
#define SHORT7(s) ((s)[0] == 0 || (s)[1] == 0 || (s)[2] == 0 || (s)[3] == 0 || (s)[4] == 0 || \
		   (s)[5] == 0 || (s)[6] == 0 || (s)[7] == 0)
/* exact equality of two C strings one of which is SHORT7: positions 0..7 decide */
#define STREQ8(a, b) ( \
	(a)[0] == (b)[0] && ((a)[0] == 0 || ( \
	(a)[1] == (b)[1] && ((a)[1] == 0 || ( \
	(a)[2] == (b)[2] && ((a)[2] == 0 || ( \
	(a)[3] == (b)[3] && ((a)[3] == 0 || ( \
	(a)[4] == (b)[4] && ((a)[4] == 0 || ( \
	(a)[5] == (b)[5] && ((a)[5] == 0 || ( \
	(a)[6] == (b)[6] && ((a)[6] == 0 || ( \
	(a)[7] == (b)[7])))))))))))))))

/* jwt_strcmp against a short name: 0 exactly when the strings are equal */
int contract_exact_jwt_strcmp(const char *str1, const char *str2)
__CPROVER_requires(str1 != NULL && str2 != NULL)
__CPROVER_requires(SHORT7(str2))
__CPROVER_assigns()
__CPROVER_ensures((__CPROVER_return_value == 0) == STREQ8(str1, str2))
;
/* ... symmetric: the first argument is the short one (jwt_set_crypto_ops) */
int contract_exact1_jwt_strcmp(const char *str1, const char *str2)
__CPROVER_requires(str1 != NULL && str2 != NULL)
__CPROVER_requires(SHORT7(str1))
__CPROVER_assigns()
__CPROVER_ensures((__CPROVER_return_value == 0) == STREQ8(str1, str2))
;

#ifdef VERIF_TU_JWT_MEMORY
/* ---- the allocator entry points (C17: the application allocator installed through
 * jwt_set_alloc is what libjwt AND jansson use; jwt_malloc is NULL-or-fresh) ---- */
#include <jwt.h>
static jwt_malloc_t pfn_malloc;	/* tentative definitions; the real ones are in jwt-memory.c */
static jwt_free_t pfn_free;
extern void *(*g_json_malloc_fn)(size_t); extern void (*g_json_free_fn)(void *);	/* ghost: what jansson was told (stubs/memory_env.c) */
/* what an application allocator may do: fail, or return a fresh object of the size asked */
void *contract_user_malloc(size_t size)
__CPROVER_assigns()
__CPROVER_ensures(__CPROVER_return_value == NULL || __CPROVER_is_fresh(__CPROVER_return_value, size))
;
void contract_user_free(void *ptr)
__CPROVER_requires(ptr == NULL || __CPROVER_is_freeable(ptr))	/* a pointer obtained from the allocator, not yet released */
__CPROVER_assigns()
__CPROVER_frees(ptr)
;
#define MEM_TAKE_ADDRESSES do { void *volatile p1 = (void *)contract_user_malloc, *volatile p2 = (void *)contract_user_free; (void)p1; (void)p2; } while (0)
void *contract_C17_jwt_malloc(size_t size)
__CPROVER_requires(pfn_malloc == NULL || __CPROVER_obeys_contract(pfn_malloc, contract_user_malloc))
__CPROVER_assigns()
__CPROVER_ensures(__CPROVER_return_value == NULL || __CPROVER_is_fresh(__CPROVER_return_value, size))
;
void contract_C17___jwt_freemem(void *ptr)
__CPROVER_requires(pfn_free == NULL || __CPROVER_obeys_contract(pfn_free, contract_user_free))
__CPROVER_requires(ptr == NULL || __CPROVER_is_fresh(ptr, 1))	/* a pointer obtained from the allocator, not yet released */
__CPROVER_assigns()
/* releases at most the object handed in, through the installed free function or free() */
__CPROVER_frees(ptr)
__CPROVER_ensures(1 == 1)
;
int contract_C17_jwt_set_alloc(jwt_malloc_t pmalloc, jwt_free_t pfree)
__CPROVER_assigns(pfn_malloc, pfn_free, g_json_malloc_fn, g_json_free_fn)
__CPROVER_ensures(__CPROVER_return_value == 0 && pfn_malloc == pmalloc && pfn_free == pfree)
/* jansson is pointed at libjwt's own entry points, so it follows every later change too */
__CPROVER_ensures(g_json_malloc_fn == jwt_malloc && g_json_free_fn == __jwt_freemem)
;
void contract_C17_jwt_get_alloc(jwt_malloc_t *pmalloc, jwt_free_t *pfree)
__CPROVER_requires(pmalloc == NULL || __CPROVER_is_fresh(pmalloc, sizeof(*pmalloc)))
__CPROVER_requires(pfree == NULL || __CPROVER_is_fresh(pfree, sizeof(*pfree)))
__CPROVER_assigns(pmalloc != NULL: *pmalloc; pfree != NULL: *pfree)
__CPROVER_ensures(pmalloc == NULL || *pmalloc == pfn_malloc)
__CPROVER_ensures(pfree == NULL || *pfree == pfn_free)
;
#endif
#endif
