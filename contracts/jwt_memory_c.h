/* jwt_memory_c.h -- contracts for libjwt/jwt-memory.c */
#ifndef VERIF_JWT_MEMORY_C_H
#define VERIF_JWT_MEMORY_C_H
#include "spec.h"
extern size_t g_str_k;

/* A string of at most 7 characters (all names libjwt compares against are) */
#define SHORT7(s) ((s)[0] == 0 || (s)[1] == 0 || (s)[2] == 0 || (s)[3] == 0 || (s)[4] == 0 || \
		   (s)[5] == 0 || (s)[6] == 0 || (s)[7] == 0)
/* exact equality of two C strings one of which is SHORT7: positions 0..7 decide */
#define STREQ8(a, b) ( \
	(a)[0] == (b)[0] && ((a)[0] == 0 || ( \
	(a)[1] == (b)[1] && ((a)[1] == 0 || ( \
	(a)[2] == (b)[2] && ((a)[2] == 0 || ( \
	(a)[3] == (b)[3] && ((a)[3] == 0 || ( \
	(a)[4] == (b)[4] && ((a)[4] == 0 || ( \
	(a)[5] == (b)[5] && ((a)[5] == 0 || ( \
	(a)[6] == (b)[6] && ((a)[6] == 0 || ( \
	(a)[7] == (b)[7])))))))))))))))

/* jwt_strcmp against a short name: 0 exactly when the strings are equal */
int contract_exact_jwt_strcmp(const char *str1, const char *str2)
__CPROVER_requires(str1 != NULL && str2 != NULL)
__CPROVER_requires(SHORT7(str2))
__CPROVER_assigns()
__CPROVER_ensures((__CPROVER_return_value == 0) == STREQ8(str1, str2))
;
/* ... symmetric: the first argument is the short one (jwt_set_crypto_ops) */
int contract_exact1_jwt_strcmp(const char *str1, const char *str2)
__CPROVER_requires(str1 != NULL && str2 != NULL)
__CPROVER_requires(SHORT7(str1))
__CPROVER_assigns()
__CPROVER_ensures((__CPROVER_return_value == 0) == STREQ8(str1, str2))
;
#endif
