/* gnutls_sv_c.h -- the real entries of jwt_gnutls_ops (libjwt/gnutls/sign-verify.c)
 * against the SAME provider-entry contracts as the OpenSSL ones (C12 parity). */
#ifndef VERIF_GNUTLS_SV_C_H
#define VERIF_GNUTLS_SV_C_H
#include "spec.h"
#include "ops.h"
#include "gnutls_model.h"
#ifdef VERIF_TU_GNUTLS_SV
static int gnutls_sign_sha_hmac(jwt_t *jwt, char **out, unsigned int *len, const char *str, unsigned int str_len);
static int gnutls_sign_sha_pem(jwt_t *jwt, char **out, unsigned int *len, const char *str, unsigned int str_len);
static int gnutls_verify_sha_pem(jwt_t *jwt, const char *head, unsigned int head_len, unsigned char *sig, int sig_len);
#endif
/* C06 ("... or leak"): the one heap object the GnuTLS verify entry creates by hand -- the DER form of an ECDSA r||s
 * signature (gnutls_encode_rs_value) -- is released exactly once on EVERY exit, accepting or rejecting.  (Leaks in
 * general are not decided: cleanup handlers do not run in cbmc; this buffer is freed by an explicit call.) */
extern unsigned g_rs_freed;
DECL_OPS_VERIFY_SHA_PEM_X(contract_C06_gnutls_verify_sha_pem, GATE_PEM_FULL,
	__CPROVER_ensures(g_rs_buf == NULL || g_rs_freed == 1));
#endif
