/* gnutls_sv_c.h -- the real entries of jwt_gnutls_ops (libjwt/gnutls/sign-verify.c)
 * against the SAME provider-entry contracts as the OpenSSL ones (C12 parity). */
#ifndef VERIF_GNUTLS_SV_C_H
#define VERIF_GNUTLS_SV_C_H
#include "spec.h"
#include "ops.h"
#include "gnutls_model.h"
#ifdef VERIF_TU_GNUTLS_SV
static int gnutls_sign_sha_hmac(jwt_t *jwt, char **out, unsigned int *len, const char *str, unsigned int str_len);
static int gnutls_sign_sha_pem(jwt_t *jwt, char **out, unsigned int *len, const char *str, unsigned int str_len);
static int gnutls_verify_sha_pem(jwt_t *jwt, const char *head, unsigned int head_len, unsigned char *sig, int sig_len);
#endif
#endif
