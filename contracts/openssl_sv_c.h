/* openssl_sv_c.h -- the real entries of jwt_openssl_ops (libjwt/openssl/sign-verify.c)
 * against the provider-entry contracts of ops.h (properties C01, C05, C12, C06). */
#ifndef VERIF_OPENSSL_SV_C_H
#define VERIF_OPENSSL_SV_C_H
#include "spec.h"
#include "ops.h"
#include "openssl_model.h"
#ifdef VERIF_TU_OSSL_SV
static int openssl_sign_sha_hmac(jwt_t *jwt, char **out, unsigned int *len, const char *str, unsigned int str_len);
static int jwt_ec_d2i(jwt_t *jwt, char **out, unsigned int *len, unsigned char *sig, unsigned int slen);
static int openssl_sign_sha_pem(jwt_t *jwt, char **out, unsigned int *len, const char *str, unsigned int str_len);
static int openssl_verify_sha_pem(jwt_t *jwt, const char *head, unsigned int head_len, unsigned char *sig, int slen);

/* C05 lemma L4: DER -> fixed-width r||s: exactly 2n bytes, n = ceil(bits/8); fails (no
 * output) when r or s does not fit; never writes outside the buffer (checked by the model
 * of BN_bn2bin: destination takes BN_num_bytes bytes) */
int contract_C05_jwt_ec_d2i(jwt_t *jwt, char **out, unsigned int *len, unsigned char *sig, unsigned int slen)
__CPROVER_requires(__CPROVER_r_ok(jwt, sizeof(*jwt)) && jwt->key != NULL && __CPROVER_r_ok(jwt->key, sizeof(*jwt->key)))
__CPROVER_requires(jwt->key->bits >= 1 && jwt->key->bits <= 1024)
__CPROVER_requires(__CPROVER_w_ok(out, sizeof(*out)) && __CPROVER_w_ok(len, sizeof(*len)))
__CPROVER_requires(slen >= 1 && slen <= 1024 && __CPROVER_r_ok(sig, slen))
__CPROVER_assigns(*out, *len)
__CPROVER_ensures(__CPROVER_return_value == 0 || __CPROVER_return_value == 1)
__CPROVER_ensures(__CPROVER_return_value == 0 ==> (*len == 2 * SPEC_EC_N(jwt->key->bits) && __CPROVER_is_fresh(*out, 2 * SPEC_EC_N(jwt->key->bits))))
;
#endif
#endif
