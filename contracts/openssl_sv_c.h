/* openssl_sv_c.h -- the real entries of jwt_openssl_ops (libjwt/openssl/sign-verify.c)
 * against the provider-entry contracts of ops.h (properties C01, C05, C12, C06). */
#ifndef VERIF_OPENSSL_SV_C_H
#define VERIF_OPENSSL_SV_C_H
#include "spec.h"
#include "ops.h"
#include "openssl_model.h"
#ifdef VERIF_TU_OSSL_SV
static int openssl_sign_sha_hmac(jwt_t *jwt, char **out, unsigned int *len, const char *str, unsigned int str_len);
static int jwt_ec_d2i(jwt_t *jwt, char **out, unsigned int *len, unsigned char *sig, unsigned int slen);
static int openssl_sign_sha_pem(jwt_t *jwt, char **out, unsigned int *len, const char *str, unsigned int str_len);
static int openssl_verify_sha_pem(jwt_t *jwt, const char *head, unsigned int head_len, unsigned char *sig, int slen);

/* C05 / C12 completeness: unless a library call fails, a signature of the right
 * shape for a key of the right family is judged by the primitive and the
 * verdict IS the primitive's verdict -- nothing the primitive would accept is
 * turned away by libjwt (and both providers then agree with their primitive) */
#define C05_OSSL_VERIFY_COMPLETE \
__CPROVER_requires(g_lib_fail == 0 && g_ver_calls == 0) \
__CPROVER_ensures((g_lib_fail == 0 && __CPROVER_old(jwt->error) == 0 && \
	SPEC_OSSL_KEY_FITS(jwt->alg, ((EVP_PKEY *)jwt->key->provider_data)->id) && \
	(!SPEC_IS_ES(jwt->alg) || (size_t)sig_len == 2 * SPEC_EC_N(jwt->key->bits))) ==> \
	(g_ver_calls == 1 && ((jwt->error == 0) == (g_ver_valid == 1))))
DECL_OPS_VERIFY_SHA_PEM_X(contract_C05_openssl_verify_sha_pem, GATE_PEM_FULL, C05_OSSL_VERIFY_COMPLETE);

/* C05 lemma L4: DER -> fixed-width r||s: exactly 2n bytes, n = ceil(bits/8); fails (no
 * output) when r or s does not fit; never writes outside the buffer (checked by the model
 * of BN_bn2bin: destination takes BN_num_bytes bytes) */
int contract_C05_jwt_ec_d2i(jwt_t *jwt, char **out, unsigned int *len, unsigned char *sig, unsigned int slen)
__CPROVER_requires(__CPROVER_r_ok(jwt, sizeof(*jwt)) && jwt->key != NULL && __CPROVER_r_ok(jwt->key, sizeof(*jwt->key)))
__CPROVER_requires(jwt->key->bits >= 1 && jwt->key->bits <= 1024)
__CPROVER_requires(__CPROVER_w_ok(out, sizeof(*out)) && __CPROVER_w_ok(len, sizeof(*len)))
__CPROVER_requires(slen >= 1 && slen <= 1024 && __CPROVER_r_ok(sig, slen))
__CPROVER_assigns(*out, *len)
__CPROVER_ensures(__CPROVER_return_value == 0 || __CPROVER_return_value == 1)
__CPROVER_ensures(__CPROVER_return_value == 0 ==> (*len == 2 * SPEC_EC_N(jwt->key->bits) && __CPROVER_is_fresh(*out, 2 * SPEC_EC_N(jwt->key->bits))))
;
#endif
#endif
