/* ops.h -- the ONE contract each crypto-provider entry point must obey.
 * It is used in two directions:
 *   (a) callers in libjwt (jwt_sign, jwt_verify_sig, ...) are verified against
 *       it through __CPROVER_obeys_contract on jwt_ops->...;
 *   (b) the real entries of jwt_openssl_ops and jwt_gnutls_ops are each
 *       proved to satisfy it (properties C01, C05, C12).
 * Ghost record g_op_* : which key / algorithm / data range the provider was
 * asked to judge -- lets callers' postconditions say WHAT was authenticated.
 */
#ifndef VERIF_OPS_H
#define VERIF_OPS_H
#include "spec.h"

/* ghost call log of the provider operations */
extern int           g_op_hmac_calls;
extern const jwk_item_t *g_op_hmac_key;
extern jwt_alg_t     g_op_hmac_alg;
extern const char   *g_op_hmac_data;
extern unsigned int  g_op_hmac_len;

extern int           g_op_sign_calls;
extern const jwk_item_t *g_op_sign_key;
extern jwt_alg_t     g_op_sign_alg;
extern const char   *g_op_sign_data;
extern unsigned int  g_op_sign_len;

extern int           g_op_verify_calls;
extern const jwk_item_t *g_op_verify_key;
extern jwt_alg_t     g_op_verify_alg;
extern const char   *g_op_verify_data;
extern unsigned int  g_op_verify_len;
extern const unsigned char *g_op_verify_sig;
extern int           g_op_verify_siglen;
extern int           g_op_verify_ret;

#define OPS_JWT_VALID(jwt) (__CPROVER_r_ok(jwt, sizeof(*jwt)) && (jwt)->key != NULL && \
			    __CPROVER_r_ok((jwt)->key, sizeof(*(jwt)->key)))

/* ---- sign_sha_hmac --------------------------------------------------- */
int contract_ops_sign_sha_hmac(jwt_t *jwt, char **out, unsigned int *len,
			       const char *str, unsigned int str_len)
/* the gate of properties C09 / C02: reached only with an HS algorithm, a key
 * of the oct family that is at least as long as the hash output */
__CPROVER_requires(OPS_JWT_VALID(jwt))
__CPROVER_requires(SPEC_IS_HS(jwt->alg))
__CPROVER_requires(SPEC_HMAC_OK(jwt->alg, jwt->key->bits))
__CPROVER_requires(jwt->key->kty == JWK_KEY_TYPE_OCT)
__CPROVER_requires(__CPROVER_w_ok(out, sizeof(*out)) && __CPROVER_w_ok(len, sizeof(*len)))
__CPROVER_assigns(*out, *len, g_op_hmac_calls, g_op_hmac_key, g_op_hmac_alg, g_op_hmac_data, g_op_hmac_len)
__CPROVER_ensures(__CPROVER_return_value == 0 || __CPROVER_return_value == 1)
__CPROVER_ensures(g_op_hmac_calls == __CPROVER_old(g_op_hmac_calls) + 1)
__CPROVER_ensures(g_op_hmac_key == jwt->key && g_op_hmac_alg == jwt->alg &&
		  g_op_hmac_data == str && g_op_hmac_len == str_len)
__CPROVER_ensures(__CPROVER_return_value == 0 ==>
		  (*len == (unsigned int)SPEC_HASH_BITS(jwt->alg) / 8 &&
		   __CPROVER_is_fresh(*out, 64)))
__CPROVER_ensures(__CPROVER_return_value != 0 ==> *out == NULL)
;

/* ---- sign_sha_pem ----------------------------------------------------- */
int contract_ops_sign_sha_pem(jwt_t *jwt, char **out, unsigned int *len,
			      const char *str, unsigned int str_len)
__CPROVER_requires(OPS_JWT_VALID(jwt))
__CPROVER_requires(SPEC_IS_ASYM(jwt->alg))
__CPROVER_requires(SPEC_ASYM_OK(jwt->alg, jwt->key->bits))
__CPROVER_requires(jwt->key->kty == SPEC_KTY_FOR(jwt->alg))
__CPROVER_requires(__CPROVER_w_ok(out, sizeof(*out)) && __CPROVER_w_ok(len, sizeof(*len)))
__CPROVER_requires(SPEC_ERRMSG_TERMINATED(jwt))
__CPROVER_assigns(*out, *len, jwt->error, __CPROVER_object_whole(jwt->error_msg),
		  g_op_sign_calls, g_op_sign_key, g_op_sign_alg, g_op_sign_data, g_op_sign_len)
__CPROVER_ensures(g_op_sign_calls == __CPROVER_old(g_op_sign_calls) + 1)
__CPROVER_ensures(g_op_sign_key == jwt->key && g_op_sign_alg == jwt->alg &&
		  g_op_sign_data == str && g_op_sign_len == str_len)
/* failure is signalled through the return value AND the per-call flag */
__CPROVER_ensures((__CPROVER_return_value != 0) == (jwt->error != 0) ||
		  (__CPROVER_old(jwt->error) != 0))
__CPROVER_ensures(__CPROVER_return_value == 0 ==>
		  (*len >= 1 && *len <= 1024 && __CPROVER_is_fresh(*out, *len)))
__CPROVER_ensures(SPEC_ERRMSG_TERMINATED(jwt))
__CPROVER_ensures(jwt->error != 0 ==> jwt->error_msg[0] != 0 || __CPROVER_old(jwt->error) != 0)
;

/* ---- verify_sha_pem --------------------------------------------------- */
int contract_ops_verify_sha_pem(jwt_t *jwt, const char *head,
				unsigned int head_len, unsigned char *sig,
				int sig_len)
__CPROVER_requires(OPS_JWT_VALID(jwt))
__CPROVER_requires(SPEC_IS_ASYM(jwt->alg))
__CPROVER_requires(SPEC_ASYM_OK(jwt->alg, jwt->key->bits))
__CPROVER_requires(jwt->key->kty == SPEC_KTY_FOR(jwt->alg))
__CPROVER_requires(sig != NULL && sig_len > 0 && __CPROVER_r_ok(sig, sig_len))
__CPROVER_requires(SPEC_ERRMSG_TERMINATED(jwt))
__CPROVER_assigns(jwt->error, __CPROVER_object_whole(jwt->error_msg),
		  g_op_verify_calls, g_op_verify_key, g_op_verify_alg, g_op_verify_data,
		  g_op_verify_len, g_op_verify_sig, g_op_verify_siglen, g_op_verify_ret)
__CPROVER_ensures(g_op_verify_calls == __CPROVER_old(g_op_verify_calls) + 1)
__CPROVER_ensures(g_op_verify_key == jwt->key && g_op_verify_alg == jwt->alg &&
		  g_op_verify_data == head && g_op_verify_len == head_len &&
		  g_op_verify_sig == sig && g_op_verify_siglen == sig_len)
__CPROVER_ensures(g_op_verify_ret == __CPROVER_return_value)
/* THE clause property C12 names: a rejected signature leaves the per-call
 * error flag set, whatever the return value is */
__CPROVER_ensures(__CPROVER_return_value != 0 ==> jwt->error != 0)
__CPROVER_ensures(__CPROVER_old(jwt->error) != 0 ==> jwt->error != 0)
__CPROVER_ensures(SPEC_ERRMSG_TERMINATED(jwt))
__CPROVER_ensures(jwt->error != 0 ==> (jwt->error_msg[0] != 0 || __CPROVER_old(jwt->error) != 0))
;
#endif
