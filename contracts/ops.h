/* ops.h -- the ONE contract each crypto-provider entry point must obey.
 * It is used in two directions:
 *   (a) callers in libjwt (jwt_sign, jwt_verify_sig, ...) are verified against
 *       it through __CPROVER_obeys_contract on jwt_ops->...;
 *   (b) the real entries of jwt_openssl_ops and jwt_gnutls_ops are each
 *       proved to satisfy it (properties C01, C05, C12).
 *
 * Ghost record of the cryptographic PRIMITIVES (g_mac_*, g_ver_*, g_sgn_*):
 * written by the models of HMAC / gnutls_hmac_fast / EVP_DigestVerify /
 * gnutls_pubkey_verify_data2 / EVP_DigestSign / gnutls_privkey_sign_data
 * (stubs/openssl.c, stubs/gnutls.c) when the real provider routines are
 * verified, and by these contracts when callers are verified.  They say WHICH
 * key, algorithm, data range and signature bytes the primitive judged, so the
 * postconditions further up can state what was authenticated (C01).
 * That a primitive's "valid" means cryptographically valid is assumed.
 */
#ifndef VERIF_OPS_H
#define VERIF_OPS_H
#include "spec.h"
#include "openssl_model.h"
extern const void *g_rs_buf, *g_rs_r, *g_rs_s; extern size_t g_rs_rn, g_rs_sn;	/* GnuTLS model: last gnutls_encode_rs_value */
extern unsigned g_rs_freed;

/* HMAC primitive */
extern const void *g_mac_key;  extern size_t g_mac_keylen;
extern const void *g_mac_data; extern size_t g_mac_len;
extern int g_mac_hash;		/* 256 / 384 / 512 */
extern const void *g_mac_out;	/* where the MAC was written */
/* signature verification primitive */
extern const void *g_ver_keymat;	/* EVP_PKEY * (OpenSSL) or the PEM text the key was imported from (GnuTLS) */
extern const void *g_ver_data; extern size_t g_ver_len;
extern int g_ver_hash;		/* 256 / 384 / 512, 0 = none (EdDSA) */
extern int g_ver_pss;		/* RSASSA-PSS padding requested */
extern int g_ver_family;	/* SPEC_KTY_* family the primitive was asked to use */
extern const void *g_ver_sig; extern size_t g_ver_siglen;	/* non-EC: the signature bytes judged */
extern const void *g_ver_raw_r, *g_ver_raw_s; extern size_t g_ver_raw_n; /* EC: DER was built from r = raw[0..n), s = raw[n..2n) */
extern int g_ver_valid;		/* 1 iff the primitive answered "valid" */
/* signing primitive */
extern const void *g_sgn_keymat; extern const void *g_sgn_data; extern size_t g_sgn_len;
extern int g_sgn_hash, g_sgn_pss;
extern int g_sgn_done;		/* 1 iff the primitive produced a signature */

#define OPS_PRIM_GHOSTS_MAC g_mac_key, g_mac_keylen, g_mac_data, g_mac_len, g_mac_hash, g_mac_out, g_lib_fail
#define OPS_PRIM_GHOSTS_VER g_ver_keymat, g_ver_data, g_ver_len, g_ver_hash, g_ver_pss, g_ver_family, g_ver_sig, \
	g_ver_siglen, g_ver_raw_r, g_ver_raw_s, g_ver_raw_n, g_ver_valid, g_der_buf, g_der_sig, g_lib_fail, g_ver_calls, g_rs_buf, g_rs_r, g_rs_s, g_rs_rn, g_rs_sn, g_rs_freed
#define OPS_PRIM_GHOSTS_SGN g_sgn_keymat, g_sgn_data, g_sgn_len, g_sgn_hash, g_sgn_pss, g_sgn_done, g_lib_fail
#define OPS_GHOST_ASSIGNS_SIGN g_mac_key, g_mac_keylen, g_mac_data, g_mac_len, g_mac_hash, g_mac_out, OPS_PRIM_GHOSTS_SGN
#define OPS_GHOST_ASSIGNS g_mac_key, g_mac_keylen, g_mac_data, g_mac_len, g_mac_hash, g_mac_out, g_sgn_keymat, g_sgn_data, g_sgn_len, g_sgn_hash, g_sgn_pss, g_sgn_done, OPS_PRIM_GHOSTS_VER

#define OPS_JWT_VALID(jwt) (__CPROVER_r_ok(jwt, sizeof(*jwt)) && (jwt)->key != NULL && \
			    __CPROVER_r_ok((jwt)->key, sizeof(*(jwt)->key)))
#define OPS_KEYMAT_OF(jwt, km) ((km) == (jwt)->key->provider_data || ((jwt)->key->pem != NULL && (km) == (jwt)->key->pem))
/* ECDSA raw signature width for a key of `bits` bits (RFC 7518 3.4) */
#define SPEC_EC_N(bits) (((bits) + 7) / 8)

/* Each provider entry has ONE contract, parameterised only by which property's
 * gate clause is asserted at the call (so that a failing gate is attributed to
 * the right property).  GATE_* are extra requires clauses:
 *   C09 : key-strength floor        C02 : key family matches the algorithm
 *   FULL: both (what the real provider routines are proved under)        */
#define GATE_NONE
#define GATE_HMAC_C09 __CPROVER_requires(SPEC_HMAC_OK(jwt->alg, jwt->key->bits))
#define GATE_HMAC_C02 __CPROVER_requires(jwt->key->kty == JWK_KEY_TYPE_OCT)
/* well-formed key item (what the JWK importers produce, property C08): an oct
 * item carries oct.len readable bytes (at most 2^20: the length travels in an
 * int inside HMAC()), any other item an EVP_PKEY in provider_data */
#define ITEM_WF(K) (((K)->kty == JWK_KEY_TYPE_OCT && (K)->oct.len <= 0x100000 && \
		    ((K)->oct.len == 0 || __CPROVER_is_fresh((K)->oct.key, (K)->oct.len))) || \
		   ((K)->kty != JWK_KEY_TYPE_OCT && __CPROVER_is_fresh((K)->provider_data, sizeof(struct evp_pkey_st))))
#define GATE_ITEM_WF __CPROVER_requires(ITEM_WF((jwt)->key))
#define GATE_HMAC_FULL GATE_HMAC_C09 GATE_HMAC_C02 GATE_ITEM_WF
#define GATE_PEM_C09 __CPROVER_requires(SPEC_ASYM_OK(jwt->alg, jwt->key->bits))
#define GATE_PEM_C02 __CPROVER_requires(jwt->key->kty == SPEC_KTY_FOR(jwt->alg))
#define GATE_PEM_FULL GATE_PEM_C09 GATE_PEM_C02 GATE_ITEM_WF

/* ---- sign_sha_hmac --------------------------------------------------- */
#define DECL_OPS_SIGN_SHA_HMAC(NAME, GATE) \
int NAME(jwt_t *jwt, char **out, unsigned int *len, const char *str, unsigned int str_len) \
__CPROVER_requires(OPS_JWT_VALID(jwt)) \
__CPROVER_requires(SPEC_IS_HS(jwt->alg)) \
GATE \
__CPROVER_requires(__CPROVER_w_ok(out, sizeof(*out)) && __CPROVER_w_ok(len, sizeof(*len))) \
__CPROVER_assigns(*out, *len, OPS_PRIM_GHOSTS_MAC) \
__CPROVER_ensures(__CPROVER_return_value == 0 || __CPROVER_return_value == 1) \
/* success: the MAC of exactly (str, str_len) under exactly the key's octets \
 * with the hash the algorithm names, written to a fresh buffer */ \
__CPROVER_ensures(__CPROVER_return_value == 0 ==> ( \
	*len == (unsigned int)SPEC_HASH_BITS(jwt->alg) / 8 && __CPROVER_is_fresh(*out, *len) && \
	g_mac_key == jwt->key->oct.key && g_mac_keylen == jwt->key->oct.len && \
	g_mac_data == str && g_mac_len == str_len && g_mac_hash == SPEC_HASH_BITS(jwt->alg) && \
	g_mac_out == *out)) \
__CPROVER_ensures(__CPROVER_return_value != 0 ==> (*out == NULL || *out == __CPROVER_old(*out)))

DECL_OPS_SIGN_SHA_HMAC(contract_ops_sign_sha_hmac, GATE_HMAC_FULL);
DECL_OPS_SIGN_SHA_HMAC(contract_all_ops_sign_sha_hmac, GATE_HMAC_FULL);
DECL_OPS_SIGN_SHA_HMAC(contract_C09_ops_sign_sha_hmac, GATE_HMAC_C09);
DECL_OPS_SIGN_SHA_HMAC(contract_C02_ops_sign_sha_hmac, GATE_HMAC_C02);
DECL_OPS_SIGN_SHA_HMAC(contract_nogate_ops_sign_sha_hmac, GATE_NONE);

/* ---- sign_sha_pem ----------------------------------------------------- */
#define DECL_OPS_SIGN_SHA_PEM(NAME, GATE) \
int NAME(jwt_t *jwt, char **out, unsigned int *len, const char *str, unsigned int str_len) \
__CPROVER_requires(OPS_JWT_VALID(jwt)) \
__CPROVER_requires(SPEC_IS_ASYM(jwt->alg)) \
GATE \
__CPROVER_requires(__CPROVER_w_ok(out, sizeof(*out)) && __CPROVER_w_ok(len, sizeof(*len))) \
/* the result pointer starts out NULL (the GnuTLS routine releases *out on its \
 * early error paths before it has initialised it) */ \
__CPROVER_requires(*out == NULL) \
__CPROVER_requires(SPEC_ERRMSG_TERMINATED(jwt)) \
__CPROVER_assigns(*out, *len, jwt->error, SPEC_ERRMSG_FRAME(jwt), OPS_PRIM_GHOSTS_SGN) \
/* failure is signalled through the return value AND the per-call flag */ \
__CPROVER_ensures(__CPROVER_return_value != 0 ==> jwt->error != 0) \
__CPROVER_ensures(__CPROVER_return_value == 0 ==> ( \
	jwt->error == 0 && *len >= 1 && *len <= 1024 && __CPROVER_is_fresh(*out, *len) && g_sgn_done == 1 && \
	OPS_KEYMAT_OF(jwt, g_sgn_keymat) && g_sgn_data == str && g_sgn_len == str_len && \
	(SPEC_IS_ED(jwt->alg) || g_sgn_hash == SPEC_HASH_BITS(jwt->alg)) /* EdDSA: the digest argument is a formality */ && \
	g_sgn_pss == SPEC_IS_PS(jwt->alg) && \
	/* ES*: fixed-width r||s (RFC 7518 3.4) */ \
	(SPEC_IS_ES(jwt->alg) ==> *len == 2 * SPEC_EC_N(jwt->key->bits)))) \
__CPROVER_ensures(SPEC_ERRMSG_TERMINATED(jwt)) \
SPEC_ERR_MONOTONE(jwt)

DECL_OPS_SIGN_SHA_PEM(contract_ops_sign_sha_pem, GATE_PEM_FULL);
DECL_OPS_SIGN_SHA_PEM(contract_all_ops_sign_sha_pem, GATE_PEM_FULL);
DECL_OPS_SIGN_SHA_PEM(contract_C09_ops_sign_sha_pem, GATE_PEM_C09);
DECL_OPS_SIGN_SHA_PEM(contract_C02_ops_sign_sha_pem, GATE_PEM_C02);
DECL_OPS_SIGN_SHA_PEM(contract_nogate_ops_sign_sha_pem, GATE_NONE);

/* ---- verify_sha_pem --------------------------------------------------- */
/* what "the primitive judged exactly this" means for (head, head_len, sig, sig_len) */
#define OPS_VERIFIED_EXACTLY(jwt, head, head_len, sig, sig_len) ( \
	g_ver_valid == 1 && OPS_KEYMAT_OF(jwt, g_ver_keymat) && \
	g_ver_data == (const void *)(head) && g_ver_len == (head_len) && \
	g_ver_hash == SPEC_HASH_BITS((jwt)->alg) && g_ver_pss == SPEC_IS_PS((jwt)->alg) && \
	g_ver_family == (int)SPEC_KTY_FOR((jwt)->alg) && \
	(SPEC_IS_ES((jwt)->alg) ? \
		/* ECDSA r||s length must equal 2 * field size; r and s are the two halves */ \
		((size_t)(sig_len) == 2 * SPEC_EC_N((jwt)->key->bits) && g_ver_raw_n == SPEC_EC_N((jwt)->key->bits) && \
		 g_ver_raw_r == (const void *)(sig) && g_ver_raw_s == (const void *)((sig) + SPEC_EC_N((jwt)->key->bits))) : \
		(g_ver_sig == (const void *)(sig) && g_ver_siglen == (size_t)(sig_len))))

#define DECL_OPS_VERIFY_SHA_PEM(NAME, GATE) DECL_OPS_VERIFY_SHA_PEM_X(NAME, GATE, )
#define DECL_OPS_VERIFY_SHA_PEM_X(NAME, GATE, EXTRA) \
int NAME(jwt_t *jwt, const char *head, unsigned int head_len, unsigned char *sig, int sig_len) \
__CPROVER_requires(OPS_JWT_VALID(jwt)) \
__CPROVER_requires(SPEC_IS_ASYM(jwt->alg)) \
GATE \
__CPROVER_requires(sig != NULL && sig_len > 0 && __CPROVER_r_ok(sig, sig_len)) \
__CPROVER_requires(SPEC_ERRMSG_TERMINATED(jwt)) \
__CPROVER_assigns(jwt->error, SPEC_ERRMSG_FRAME(jwt), OPS_PRIM_GHOSTS_VER) \
/* THE clause property C12 names: a rejected signature leaves the per-call \
 * error flag set, whatever the return value is -- so: flag clear afterwards \
 * (it was clear before) implies the primitive said valid, about exactly \
 * this key, algorithm, data and signature */ \
__CPROVER_ensures((__CPROVER_old(jwt->error) == 0 && jwt->error == 0) ==> \
	OPS_VERIFIED_EXACTLY(jwt, head, head_len, sig, sig_len)) \
__CPROVER_ensures(__CPROVER_return_value != 0 ==> jwt->error != 0) \
__CPROVER_ensures(SPEC_ERRMSG_TERMINATED(jwt)) \
SPEC_ERR_MONOTONE(jwt) \
EXTRA

DECL_OPS_VERIFY_SHA_PEM(contract_ops_verify_sha_pem, GATE_PEM_FULL);
DECL_OPS_VERIFY_SHA_PEM(contract_all_ops_verify_sha_pem, GATE_PEM_FULL);
DECL_OPS_VERIFY_SHA_PEM(contract_C09_ops_verify_sha_pem, GATE_PEM_C09);
DECL_OPS_VERIFY_SHA_PEM(contract_C02_ops_verify_sha_pem, GATE_PEM_C02);
DECL_OPS_VERIFY_SHA_PEM(contract_nogate_ops_verify_sha_pem, GATE_NONE);

/* jwt_ops points to a provider table whose entries obey the contracts */
#define OPS_TABLE_OBEYS(P) (__CPROVER_is_fresh(jwt_ops, sizeof(*jwt_ops)) && \
	__CPROVER_obeys_contract(jwt_ops->sign_sha_hmac, contract_##P##_ops_sign_sha_hmac) && \
	__CPROVER_obeys_contract(jwt_ops->sign_sha_pem, contract_##P##_ops_sign_sha_pem) && \
	__CPROVER_obeys_contract(jwt_ops->verify_sha_pem, contract_##P##_ops_verify_sha_pem))
/* harnesses must take the address of the contract symbols (CBMC needs them as
 * candidates for the function pointers) */
#define OPS_TAKE_ADDRESSES(P) do { \
	void *volatile a1 = (void *)contract_##P##_ops_sign_sha_hmac; \
	void *volatile a2 = (void *)contract_##P##_ops_sign_sha_pem; \
	void *volatile a3 = (void *)contract_##P##_ops_verify_sha_pem; (void)a1; (void)a2; (void)a3; } while (0)

#endif
