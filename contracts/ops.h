/* ops.h -- the ONE contract each crypto-provider entry point must obey.
 * It is used in two directions:
 *   (a) callers in libjwt (jwt_sign, jwt_verify_sig, ...) are verified against
 *       it through __CPROVER_obeys_contract on jwt_ops->...;
 *   (b) the real entries of jwt_openssl_ops and jwt_gnutls_ops are each
 *       proved to satisfy it (properties C01, C05, C12).
 * Ghost record g_op_* : which key / algorithm / data range the provider was
 * asked to judge -- lets callers' postconditions say WHAT was authenticated.
 */
#ifndef VERIF_OPS_H
#define VERIF_OPS_H
#include "spec.h"

/* ghost call log of the provider operations */
extern unsigned      g_op_hmac_calls;
extern const jwk_item_t *g_op_hmac_key;
extern jwt_alg_t     g_op_hmac_alg;
extern const char   *g_op_hmac_data;
extern unsigned int  g_op_hmac_len;

extern unsigned      g_op_sign_calls;
extern const jwk_item_t *g_op_sign_key;
extern jwt_alg_t     g_op_sign_alg;
extern const char   *g_op_sign_data;
extern unsigned int  g_op_sign_len;

extern unsigned      g_op_verify_calls;
extern const jwk_item_t *g_op_verify_key;
extern jwt_alg_t     g_op_verify_alg;
extern const char   *g_op_verify_data;
extern unsigned int  g_op_verify_len;
extern const unsigned char *g_op_verify_sig;
extern int           g_op_verify_siglen;
extern int           g_op_verify_ret;

#define OPS_JWT_VALID(jwt) (__CPROVER_r_ok(jwt, sizeof(*jwt)) && (jwt)->key != NULL && \
			    __CPROVER_r_ok((jwt)->key, sizeof(*(jwt)->key)))

/* Each provider entry has ONE contract, parameterised only by which property's
 * gate clause is asserted at the call (so that a failing gate is attributed to
 * the right property).  GATE_* are extra requires clauses:
 *   C09 : key-strength floor        C02 : key family matches the algorithm
 *   FULL: both (what the real provider routines are proved under)        */
#define GATE_NONE
#define GATE_HMAC_C09 __CPROVER_requires(SPEC_HMAC_OK(jwt->alg, jwt->key->bits))
#define GATE_HMAC_C02 __CPROVER_requires(jwt->key->kty == JWK_KEY_TYPE_OCT)
#define GATE_HMAC_FULL GATE_HMAC_C09 GATE_HMAC_C02
#define GATE_PEM_C09 __CPROVER_requires(SPEC_ASYM_OK(jwt->alg, jwt->key->bits))
#define GATE_PEM_C02 __CPROVER_requires(jwt->key->kty == SPEC_KTY_FOR(jwt->alg))
#define GATE_PEM_FULL GATE_PEM_C09 GATE_PEM_C02

/* ---- sign_sha_hmac --------------------------------------------------- */
#define DECL_OPS_SIGN_SHA_HMAC(NAME, GATE) \
int NAME(jwt_t *jwt, char **out, unsigned int *len, const char *str, unsigned int str_len) \
__CPROVER_requires(OPS_JWT_VALID(jwt)) \
__CPROVER_requires(SPEC_IS_HS(jwt->alg)) \
GATE \
__CPROVER_requires(__CPROVER_w_ok(out, sizeof(*out)) && __CPROVER_w_ok(len, sizeof(*len))) \
__CPROVER_assigns(*out, *len, g_op_hmac_calls, g_op_hmac_key, g_op_hmac_alg, g_op_hmac_data, g_op_hmac_len) \
__CPROVER_ensures(__CPROVER_return_value == 0 || __CPROVER_return_value == 1) \
__CPROVER_ensures(g_op_hmac_calls == __CPROVER_old(g_op_hmac_calls) + 1) \
__CPROVER_ensures(g_op_hmac_key == jwt->key && g_op_hmac_alg == jwt->alg && \
		  g_op_hmac_data == str && g_op_hmac_len == str_len) \
__CPROVER_ensures(__CPROVER_return_value == 0 ==> \
		  (*len == (unsigned int)SPEC_HASH_BITS(jwt->alg) / 8 && \
		   __CPROVER_is_fresh(*out, 64))) \
__CPROVER_ensures(__CPROVER_return_value != 0 ==> *out == NULL)

DECL_OPS_SIGN_SHA_HMAC(contract_ops_sign_sha_hmac, GATE_HMAC_FULL);
DECL_OPS_SIGN_SHA_HMAC(contract_C09_ops_sign_sha_hmac, GATE_HMAC_C09);
DECL_OPS_SIGN_SHA_HMAC(contract_C02_ops_sign_sha_hmac, GATE_HMAC_C02);
DECL_OPS_SIGN_SHA_HMAC(contract_nogate_ops_sign_sha_hmac, GATE_NONE);

/* ---- sign_sha_pem ----------------------------------------------------- */
#define DECL_OPS_SIGN_SHA_PEM(NAME, GATE) \
int NAME(jwt_t *jwt, char **out, unsigned int *len, const char *str, unsigned int str_len) \
__CPROVER_requires(OPS_JWT_VALID(jwt)) \
__CPROVER_requires(SPEC_IS_ASYM(jwt->alg)) \
GATE \
__CPROVER_requires(__CPROVER_w_ok(out, sizeof(*out)) && __CPROVER_w_ok(len, sizeof(*len))) \
__CPROVER_requires(SPEC_ERRMSG_TERMINATED(jwt)) \
__CPROVER_assigns(*out, *len, jwt->error, SPEC_ERRMSG_FRAME(jwt), \
		  g_op_sign_calls, g_op_sign_key, g_op_sign_alg, g_op_sign_data, g_op_sign_len) \
__CPROVER_ensures(g_op_sign_calls == __CPROVER_old(g_op_sign_calls) + 1) \
__CPROVER_ensures(g_op_sign_key == jwt->key && g_op_sign_alg == jwt->alg && \
		  g_op_sign_data == str && g_op_sign_len == str_len) \
/* failure is signalled through the return value AND the per-call flag */ \
__CPROVER_ensures(__CPROVER_return_value != 0 ==> jwt->error != 0) \
__CPROVER_ensures(__CPROVER_return_value == 0 ==> \
		  (*len >= 1 && *len <= 1024 && __CPROVER_is_fresh(*out, 1024))) \
__CPROVER_ensures(SPEC_ERRMSG_TERMINATED(jwt)) \
SPEC_ERR_MONOTONE(jwt)

DECL_OPS_SIGN_SHA_PEM(contract_ops_sign_sha_pem, GATE_PEM_FULL);
DECL_OPS_SIGN_SHA_PEM(contract_C09_ops_sign_sha_pem, GATE_PEM_C09);
DECL_OPS_SIGN_SHA_PEM(contract_C02_ops_sign_sha_pem, GATE_PEM_C02);
DECL_OPS_SIGN_SHA_PEM(contract_nogate_ops_sign_sha_pem, GATE_NONE);

/* ---- verify_sha_pem --------------------------------------------------- */
#define DECL_OPS_VERIFY_SHA_PEM(NAME, GATE) \
int NAME(jwt_t *jwt, const char *head, unsigned int head_len, unsigned char *sig, int sig_len) \
__CPROVER_requires(OPS_JWT_VALID(jwt)) \
__CPROVER_requires(SPEC_IS_ASYM(jwt->alg)) \
GATE \
__CPROVER_requires(sig != NULL && sig_len > 0 && __CPROVER_r_ok(sig, sig_len)) \
__CPROVER_requires(SPEC_ERRMSG_TERMINATED(jwt)) \
__CPROVER_assigns(jwt->error, SPEC_ERRMSG_FRAME(jwt), \
		  g_op_verify_calls, g_op_verify_key, g_op_verify_alg, g_op_verify_data, \
		  g_op_verify_len, g_op_verify_sig, g_op_verify_siglen, g_op_verify_ret) \
__CPROVER_ensures(g_op_verify_calls == __CPROVER_old(g_op_verify_calls) + 1) \
__CPROVER_ensures(g_op_verify_key == jwt->key && g_op_verify_alg == jwt->alg && \
		  g_op_verify_data == head && g_op_verify_len == head_len && \
		  g_op_verify_sig == sig && g_op_verify_siglen == sig_len) \
__CPROVER_ensures(g_op_verify_ret == __CPROVER_return_value) \
/* THE clause property C12 names: a rejected signature leaves the per-call \
 * error flag set, whatever the return value is */ \
__CPROVER_ensures(__CPROVER_return_value != 0 ==> jwt->error != 0) \
__CPROVER_ensures(SPEC_ERRMSG_TERMINATED(jwt)) \
SPEC_ERR_MONOTONE(jwt)

DECL_OPS_VERIFY_SHA_PEM(contract_ops_verify_sha_pem, GATE_PEM_FULL);
DECL_OPS_VERIFY_SHA_PEM(contract_C09_ops_verify_sha_pem, GATE_PEM_C09);
DECL_OPS_VERIFY_SHA_PEM(contract_C02_ops_verify_sha_pem, GATE_PEM_C02);
DECL_OPS_VERIFY_SHA_PEM(contract_nogate_ops_verify_sha_pem, GATE_NONE);

/* jwt_ops points to a provider table whose entries obey the contracts */
#define OPS_TABLE_OBEYS(P) (__CPROVER_is_fresh(jwt_ops, sizeof(*jwt_ops)) && \
	__CPROVER_obeys_contract(jwt_ops->sign_sha_hmac, contract_##P##_ops_sign_sha_hmac) && \
	__CPROVER_obeys_contract(jwt_ops->sign_sha_pem, contract_##P##_ops_sign_sha_pem) && \
	__CPROVER_obeys_contract(jwt_ops->verify_sha_pem, contract_##P##_ops_verify_sha_pem))
/* harnesses must take the address of the contract symbols (CBMC needs them as
 * candidates for the function pointers) */
#define OPS_TAKE_ADDRESSES(P) do { \
	void *volatile a1 = (void *)contract_##P##_ops_sign_sha_hmac; \
	void *volatile a2 = (void *)contract_##P##_ops_sign_sha_pem; \
	void *volatile a3 = (void *)contract_##P##_ops_verify_sha_pem; (void)a1; (void)a2; (void)a3; } while (0)

#define OPS_GHOST_ASSIGNS_SIGN g_op_hmac_calls, g_op_hmac_key, g_op_hmac_alg, g_op_hmac_data, g_op_hmac_len, \
	g_op_sign_calls, g_op_sign_key, g_op_sign_alg, g_op_sign_data, g_op_sign_len
#define OPS_GHOST_ASSIGNS g_op_hmac_calls, g_op_hmac_key, g_op_hmac_alg, g_op_hmac_data, g_op_hmac_len, \
	g_op_sign_calls, g_op_sign_key, g_op_sign_alg, g_op_sign_data, g_op_sign_len, \
	g_op_verify_calls, g_op_verify_key, g_op_verify_alg, g_op_verify_data, g_op_verify_len, \
	g_op_verify_sig, g_op_verify_siglen, g_op_verify_ret
#endif
