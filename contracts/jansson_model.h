/* jansson_model.h -- the state of the jansson model (stubs/jansson.c) that
 * contracts are allowed to talk about. */
#ifndef VERIF_JANSSON_MODEL_H
#define VERIF_JANSSON_MODEL_H
#include <jansson.h>
/* json_t itself carries the model's ghost fields: bin/check derives the
 * <jansson.h> the verified TUs see from the installed header on every run by
 * adding four fields to struct json_t (ival, sval, tracked, asize) -- see
 * make_model_includes() in bin/check and DESIGN.md section 4. */
typedef json_t vj_t;
extern const char *g_json_key;
extern unsigned g_json_version, g_json_mutations, g_json_loads_flags, g_json_dumps_flags;
extern const struct json_t *g_json_dumped;	/* the value the last json_dumps was asked to serialise */
extern json_t *g_json_loaded, *g_json_loaded_tracked; extern int g_json_update_kind;

/* ghosts written by the json_load* models */
#define JSON_LOAD_GHOSTS g_json_loads_flags, g_json_loaded, g_json_loaded_tracked
#define VJ(p) (p)
/* a valid model object node */
#define VJ_IS_OBJECT(p) (__CPROVER_is_fresh(p, sizeof(vj_t)) && VJ(p)->type == JSON_OBJECT && \
			 VJ(p)->refcount >= 1 && VJ(p)->refcount < 1000)
/* a valid parsed document: object or array (arrays have no members we track) */
#define VJ_IS_DOC(p) (__CPROVER_is_fresh(p, sizeof(vj_t)) && (VJ(p)->type == JSON_OBJECT || VJ(p)->type == JSON_ARRAY) && \
		      VJ(p)->refcount >= 1 && VJ(p)->refcount < 1000 && (VJ(p)->type == JSON_OBJECT || VJ(p)->tracked == NULL))
/* ... whose tracked member is absent or a valid node of any type; LEN is the
 * ghost variable holding the length of the member's string value */
#define VJ_TRACKED_OK(p, LEN) (VJ(p)->tracked == NULL || \
	(__CPROVER_is_fresh(VJ(p)->tracked, sizeof(vj_t)) && VJ(p)->tracked->refcount >= 1 && \
	 VJ(p)->tracked->refcount < 1000 && \
	 VJ(p)->tracked->type >= JSON_OBJECT && VJ(p)->tracked->type <= JSON_NULL && \
	 VJ(p)->tracked->tracked == NULL && \
	 (VJ(p)->tracked->type != JSON_STRING || \
	  ((LEN) < 0x1000000 && __CPROVER_is_fresh(VJ(p)->tracked->sval, (LEN) + 1) && \
	   VJ(p)->tracked->sval[LEN] == 0))))
extern size_t g_vj_len_a, g_vj_len_b, g_vj_len_c, g_vj_len_d;	/* ghost string lengths (token side / configuration side) */
/* spec view of the tracked member */
#define VJ_HAS(p) (VJ(p)->tracked != NULL)
#define VJ_TYPE(p) (VJ(p)->tracked->type)
#define VJ_IS_INT(p) (VJ_HAS(p) && VJ_TYPE(p) == JSON_INTEGER)
#define VJ_IS_STR(p) (VJ_HAS(p) && VJ_TYPE(p) == JSON_STRING)
#define VJ_IS_BOOL(p) (VJ_HAS(p) && (VJ_TYPE(p) == JSON_TRUE || VJ_TYPE(p) == JSON_FALSE))
#define VJ_INT(p) (VJ(p)->tracked->ival)
#define VJ_STR(p) (VJ(p)->tracked->sval)

/* the tracked key is exactly the literal (up to 7 characters) */
#define KEY3(k, a, b, c) ((k) != NULL && (k)[0] == (a) && (k)[1] == (b) && (k)[2] == (c) && (k)[3] == 0)
#define TRACKING3(a, b, c) KEY3(g_json_key, a, b, c)
#endif
