/* openssl_model.h -- state of the OpenSSL model (stubs/openssl.c) that contracts
 * may talk about.  The OpenSSL types are opaque in the installed headers; the
 * model gives them the fields below. */
#ifndef VERIF_OPENSSL_MODEL_H
#define VERIF_OPENSSL_MODEL_H
#include <openssl/evp.h>
#include <openssl/bn.h>
#include <openssl/ec.h>
#include <openssl/ecdsa.h>
struct evp_pkey_st { int id; };			/* EVP_PKEY: the key type (EVP_PKEY_RSA, ...) */
struct evp_md_st { int bits; };			/* EVP_MD: 256 / 384 / 512, 0 for the null digest */
struct evp_pkey_ctx_st { EVP_PKEY *pkey; int padding; int saltlen; };
struct evp_md_ctx_st { const EVP_MD *md; EVP_PKEY *pkey; EVP_PKEY_CTX *pctx; int mode; size_t maxsig; };
struct bignum_st { const unsigned char *src; int len; int nbytes; };	/* value read from src[0..len); nbytes = minimal length */
struct ECDSA_SIG_st { BIGNUM *r, *s; int derlen; int released; /* ghost: ECDSA_SIG_free was called on it */ };
/* ghost: the DER buffer written by the last i2d_ECDSA_SIG and the signature object it came from */
extern const void *g_der_buf; extern const ECDSA_SIG *g_der_sig;
extern int g_lib_fail; extern unsigned g_ver_calls;
/* the EVP_PKEY types an algorithm may be evaluated with (RFC 7518: RS* needs a
 * plain RSA key, PS* takes RSA or RSA-PSS keys, ES* an EC key, EdDSA Ed25519/Ed448) */
#define SPEC_OSSL_KEY_FITS(alg, id) ( \
	(SPEC_IS_RS(alg) && (id) == EVP_PKEY_RSA) || (SPEC_IS_PS(alg) && ((id) == EVP_PKEY_RSA || (id) == EVP_PKEY_RSA_PSS)) || \
	(SPEC_IS_ES(alg) && (id) == EVP_PKEY_EC) || (SPEC_IS_ED(alg) && ((id) == EVP_PKEY_ED25519 || (id) == EVP_PKEY_ED448)))
/* key family of an EVP_PKEY id */
#define SPEC_OSSL_FAMILY(id) (((id) == EVP_PKEY_RSA || (id) == EVP_PKEY_RSA_PSS) ? JWK_KEY_TYPE_RSA : (id) == EVP_PKEY_EC ? JWK_KEY_TYPE_EC : \
	((id) == EVP_PKEY_ED25519 || (id) == EVP_PKEY_ED448) ? JWK_KEY_TYPE_OKP : JWK_KEY_TYPE_NONE)
#endif
