/* prelude.h -- force-included (-include) ahead of every verified translation
 * unit.  It changes NOTHING in the libjwt sources except what is listed in
 * DESIGN.md section 4:
 *   - snprintf (variadic; variadics break DFCC frame checking) is redirected to
 *     a 3-argument shim with an assumed contract;
 *   - ghost state used by contracts is declared.
 * The real /repo source file is #included unmodified after this header.
 */
#ifndef VERIF_PRELUDE_H
#define VERIF_PRELUDE_H

#define VERIF_CBMC 1

#include <stddef.h>
#include <stdint.h>
#include <stdlib.h>
#include <string.h>
#include <stdio.h>
#include <time.h>

/* ---- snprintf shim (assumed contract, see stubs/libc.h) ---- */
int verif_snprintf(char *buf, size_t size, const char *fmt);
#undef snprintf
#define snprintf(buf, size, ...) verif_snprintf((buf), (size), VERIF_FIRST(__VA_ARGS__, 0))
#define VERIF_FIRST(a, ...) (a)

/* sprintf (variadic) has exactly one call site in libjwt, jwt_encode():
 *     sprintf(*out, "%s.%s.%s", head, payload, buf)
 * it is redirected to a fixed-arity shim with an assumed contract (stubs/encode_env.c). */
int verif_sprintf3(char *dst, const char *fmt, const char *a, const char *b, const char *c);
#undef sprintf
#define sprintf(dst, fmt, a, b, c) verif_sprintf3((dst), (fmt), (a), (b), (c))

/* fprintf/printf are variadic (see snprintf above); their output is not part of
 * any property: calls are dropped (arguments are plain reads in libjwt). */
#undef fprintf
#define fprintf(...) ((int)0)

/* Nondeterministic values */
int nondet_int(void);
unsigned int nondet_uint(void);
long nondet_long(void);
unsigned long nondet_ulong(void);
size_t nondet_size_t(void);
char nondet_char(void);
unsigned char nondet_uchar(void);
_Bool nondet_bool(void);
void *nondet_ptr(void);


/* Observation points: OBS(name, v) inside a requires clause records the value
 * v of an input in the counterexample trace as an assignment IN_<name> = v
 * (always true, no effect on the proof).  bin/check hands the IN_* values of a
 * failing obligation to the native replay driver. */
#define VERIF_OBS_DECL(name) static inline _Bool verif_obs_##name(long IN_##name) { return 1; }
#define OBS(name, v) verif_obs_##name((long)(v))

#endif
