/* key2jwk_c.h -- contract for process_ec_key() of tools/key2jwk.c (property C20:
 * "follows the RFC 7518 member encodings (fixed-width EC x, y and d)").
 * RFC 7518 6.2.1.2/6.2.1.3/6.2.2.1: the octet strings of x, y and d have the full length of
 * the curve's field (resp. order) size: ceil(bits/8) = 32, 48, 66 octets. */
#ifndef VERIF_KEY2JWK_C_H
#define VERIF_KEY2JWK_C_H
#include <openssl/evp.h>
#include <openssl/bn.h>
#include <jansson.h>
#include <jwt.h>
#undef printf
#define printf(...) ((int)0)
/* ghost (stubs/key2jwk_env.c) */
extern _Bool g_ec_bits_set; extern size_t g_ec_bits;			/* what OSSL_PKEY_PARAM_BITS reports for the key */
extern unsigned g_set_calls;			/* json_object_set_new calls */
extern char g_set_name[8]; extern int g_set_len[8];	/* first letter of the member, octet length encoded for it (-1: not an encoded member) */
extern int g_enc_last_len;
#define K2J_GHOSTS g_ec_bits, g_ec_bits_set, g_set_calls, __CPROVER_object_whole(g_set_name), __CPROVER_object_whole(g_set_len), g_enc_last_len
#define SPEC_EC_WIDTH(bits) ((int)(((bits) + 7) / 8))
#define EC_BITS_KNOWN (g_ec_bits == 256 || g_ec_bits == 384 || g_ec_bits == 521)
#define MEMBER_OK(i, ch) (g_set_name[i] == (ch) && g_set_len[i] == SPEC_EC_WIDTH(g_ec_bits))

static void process_ec_key(EVP_PKEY *pkey, int priv, json_t *jwk);

void contract_C20_process_ec_key(EVP_PKEY *pkey, int priv, json_t *jwk)
__CPROVER_requires(g_set_calls == 0 && g_enc_last_len == -1 && !g_ec_bits_set)
__CPROVER_assigns(K2J_GHOSTS)
/* alg, crv, then x, y and (private keys) d -- each coordinate in full width */
__CPROVER_ensures(EC_BITS_KNOWN ==> (g_set_calls == (priv ? 5u : 4u) && g_set_name[0] == 'a' && g_set_name[1] == 'c'))
__CPROVER_ensures(EC_BITS_KNOWN ==> (MEMBER_OK(2, 'x') && MEMBER_OK(3, 'y')))
__CPROVER_ensures((EC_BITS_KNOWN && priv) ==> MEMBER_OK(4, 'd'))
;
#endif
