/* jwt_c.h -- named contracts for the functions of libjwt/jwt.c.
 * Attached to the REAL definitions (including the static ones) with
 *    --enforce-contract  f/contract_Cxx_f
 * The forward declarations below only make the static functions nameable from
 * the harness that follows the #include of the real source. */
#ifndef VERIF_JWT_C_H
#define VERIF_JWT_C_H
#include "spec.h"
#include "ops.h"

static int __check_hmac(jwt_t *jwt);
static int __check_key_bits(jwt_t *jwt);

VERIF_OBS_DECL(alg) VERIF_OBS_DECL(bits) VERIF_OBS_DECL(kty)
#define JWT_WITH_KEY(jwt) (__CPROVER_is_fresh(jwt, sizeof(*jwt)) && \
			   __CPROVER_is_fresh((jwt)->key, sizeof(*(jwt)->key)))

/* ===================== C09: key-strength floor ========================== */
/* bits travels through `int key_bits = jwt->key->bits`; the stated range is
 * what process_octet / EVP_PKEY_get_size_t_param can produce (DESIGN s.5) */
#define C09_BITS_RANGE(jwt) ((jwt)->key->bits <= 0x7fffffff)

int contract_C09___check_hmac(jwt_t *jwt)
__CPROVER_requires(JWT_WITH_KEY(jwt))
__CPROVER_requires(C09_BITS_RANGE(jwt))
__CPROVER_requires(SPEC_ERRMSG_TERMINATED(jwt))
__CPROVER_requires(OBS(alg, jwt->alg) && OBS(bits, jwt->key->bits) && OBS(kty, jwt->key->kty))
__CPROVER_assigns(jwt->error, SPEC_ERRMSG_FRAME(jwt))
__CPROVER_ensures(__CPROVER_return_value == 0 || __CPROVER_return_value == 1)
/* accepted only at or above the floor ... */
__CPROVER_ensures(__CPROVER_return_value == 0 ==> SPEC_HMAC_OK(jwt->alg, jwt->key->bits))
/* ... and keys at or above the floor work */
__CPROVER_ensures(SPEC_HMAC_OK(jwt->alg, jwt->key->bits) ==> __CPROVER_return_value == 0)
/* a refusal for an HS algorithm is reported: flag and non-empty message */
__CPROVER_ensures((__CPROVER_return_value != 0 && SPEC_IS_HS(jwt->alg)) ==>
		  (jwt->error == 1 && jwt->error_msg[0] != 0))
__CPROVER_ensures(__CPROVER_return_value == 0 ==> jwt->error == __CPROVER_old(jwt->error))
__CPROVER_ensures(SPEC_ERRMSG_TERMINATED(jwt))
;

int contract_C09___check_key_bits(jwt_t *jwt)
__CPROVER_requires(JWT_WITH_KEY(jwt))
__CPROVER_requires(C09_BITS_RANGE(jwt))
__CPROVER_requires(SPEC_ERRMSG_TERMINATED(jwt))
__CPROVER_requires(OBS(alg, jwt->alg) && OBS(bits, jwt->key->bits) && OBS(kty, jwt->key->kty))
__CPROVER_assigns(jwt->error, SPEC_ERRMSG_FRAME(jwt))
__CPROVER_ensures(__CPROVER_return_value == 0 || __CPROVER_return_value == 1)
__CPROVER_ensures(__CPROVER_return_value == 0 ==> SPEC_ASYM_OK(jwt->alg, jwt->key->bits))
__CPROVER_ensures(SPEC_ASYM_OK(jwt->alg, jwt->key->bits) ==> __CPROVER_return_value == 0)
__CPROVER_ensures((__CPROVER_return_value != 0 && SPEC_IS_ASYM(jwt->alg)) ==>
		  (jwt->error == 1 && jwt->error_msg[0] != 0))
__CPROVER_ensures(__CPROVER_return_value == 0 ==> jwt->error == __CPROVER_old(jwt->error))
__CPROVER_ensures(SPEC_ERRMSG_TERMINATED(jwt))
;

/* jwt_sign: a provider operation is reached only after the matching check
 * accepted THIS algorithm and THIS key; success implies the floor */
int contract_C09_jwt_sign(jwt_t *jwt, char **out, unsigned int *len, const char *str, unsigned int str_len)
__CPROVER_requires(JWT_WITH_KEY(jwt))
__CPROVER_requires(C09_BITS_RANGE(jwt))
__CPROVER_requires(SPEC_ERRMSG_TERMINATED(jwt))
__CPROVER_requires(OBS(alg, jwt->alg) && OBS(bits, jwt->key->bits) && OBS(kty, jwt->key->kty))
__CPROVER_requires(__CPROVER_is_fresh(out, sizeof(*out)) && __CPROVER_is_fresh(len, sizeof(*len)))
__CPROVER_requires(OPS_TABLE_OBEYS(C09))
__CPROVER_assigns(*out, *len, jwt->error, SPEC_ERRMSG_FRAME(jwt), OPS_GHOST_ASSIGNS_SIGN)
__CPROVER_ensures(__CPROVER_return_value == 0 || __CPROVER_return_value == 1)
__CPROVER_ensures(__CPROVER_return_value == 0 ==> (*len >= 1 && *len <= 1024 && __CPROVER_is_fresh(*out, *len)))
__CPROVER_ensures(__CPROVER_return_value == 0 ==>
		  (SPEC_HMAC_OK(jwt->alg, jwt->key->bits) || SPEC_ASYM_OK(jwt->alg, jwt->key->bits)))
/* below the floor no provider operation was invoked at all */
__CPROVER_ensures(!(SPEC_HMAC_OK(jwt->alg, jwt->key->bits) || SPEC_ASYM_OK(jwt->alg, jwt->key->bits)) ==>
		  (g_op_hmac_calls == __CPROVER_old(g_op_hmac_calls) && g_op_sign_calls == __CPROVER_old(g_op_sign_calls)))
/* "the call fails with an error instead" */
__CPROVER_ensures(__CPROVER_return_value != 0 ==> (jwt->error != 0 && jwt->error_msg[0] != 0))
__CPROVER_ensures(SPEC_ERRMSG_TERMINATED(jwt))
;

/* ====================== shape contracts (shared) ======================= */
/* memory shape of the base64url helpers; their functional contracts are
 * proved in C11 (same functions, stronger clauses).  B64_MAXLEN: lengths
 * travel in int inside libjwt. */
#define B64_MAXLEN 0x5ffffff0

#define DECL_jwt_base64uri_decode(NAME, EXTRA) \
void *NAME(const char *src, int *ret_len) \
__CPROVER_requires(src == NULL || __CPROVER_r_ok(src, 1)) \
__CPROVER_requires(ret_len == NULL || __CPROVER_w_ok(ret_len, sizeof(*ret_len))) \
__CPROVER_assigns(ret_len != NULL: *ret_len) \
__CPROVER_ensures(__CPROVER_return_value == NULL || \
	(src != NULL && ret_len != NULL && *ret_len >= 1 && *ret_len <= B64_MAXLEN && \
	 __CPROVER_is_fresh(__CPROVER_return_value, (size_t)*ret_len + 1))) \
EXTRA
DECL_jwt_base64uri_decode(contract_shape_jwt_base64uri_decode, );

#define DECL_jwt_base64uri_encode(NAME, EXTRA) \
int NAME(char **_dst, const char *plain, int plain_len) \
__CPROVER_requires(__CPROVER_w_ok(_dst, sizeof(*_dst))) \
__CPROVER_requires(plain_len >= 0 && plain_len <= B64_MAXLEN) \
__CPROVER_requires(plain_len == 0 || __CPROVER_r_ok(plain, plain_len)) \
__CPROVER_assigns(*_dst) \
__CPROVER_ensures(__CPROVER_return_value == -1 || \
	(__CPROVER_return_value >= 0 && __CPROVER_return_value <= 4 * ((plain_len + 2) / 3) && \
	 ((__CPROVER_return_value == 0) == (plain_len == 0)) && \
	 __CPROVER_is_fresh(*_dst, (size_t)__CPROVER_return_value + 1) && \
	 (*_dst)[__CPROVER_return_value] == 0)) \
__CPROVER_ensures(__CPROVER_return_value == -1 ==> *_dst == __CPROVER_old(*_dst)) \
EXTRA
DECL_jwt_base64uri_encode(contract_shape_jwt_base64uri_encode, );

/* jwt_strcmp (jwt-memory.c): constant-time comparison; 0 iff equal.  The
 * "equal" direction is stated through the ghost index g_str_k (any index),
 * position 0 and the length. */
extern size_t g_str_k;
#define DECL_jwt_strcmp(NAME, EXTRA) \
int NAME(const char *str1, const char *str2) \
__CPROVER_requires(str1 != NULL && str2 != NULL) \
__CPROVER_assigns() \
EXTRA
DECL_jwt_strcmp(contract_shape_jwt_strcmp, );

/* ---- C09 chain: _verify_sha_hmac, jwt_verify_sig ---- */
static int _verify_sha_hmac(jwt_t *jwt, const char *head, unsigned int head_len, const char *sig);

#define C09_FLOOR_OK(jwt) (SPEC_HMAC_OK((jwt)->alg, (jwt)->key->bits) || SPEC_ASYM_OK((jwt)->alg, (jwt)->key->bits))
#define C09_NO_OPS_CALLED (g_op_hmac_calls == __CPROVER_old(g_op_hmac_calls) && \
	g_op_sign_calls == __CPROVER_old(g_op_sign_calls) && g_op_verify_calls == __CPROVER_old(g_op_verify_calls))

int contract_C09__verify_sha_hmac(jwt_t *jwt, const char *head, unsigned int head_len, const char *sig)
__CPROVER_requires(JWT_WITH_KEY(jwt))
__CPROVER_requires(C09_BITS_RANGE(jwt))
__CPROVER_requires(SPEC_ERRMSG_TERMINATED(jwt))
__CPROVER_requires(OBS(alg, jwt->alg) && OBS(bits, jwt->key->bits) && OBS(kty, jwt->key->kty))
__CPROVER_requires(sig != NULL)
__CPROVER_requires(OPS_TABLE_OBEYS(C09))
__CPROVER_assigns(jwt->error, SPEC_ERRMSG_FRAME(jwt), OPS_GHOST_ASSIGNS)
__CPROVER_ensures(__CPROVER_return_value == 0 ==> C09_FLOOR_OK(jwt))
__CPROVER_ensures(!C09_FLOOR_OK(jwt) ==> C09_NO_OPS_CALLED)
__CPROVER_ensures(SPEC_ERRMSG_TERMINATED(jwt))
;

jwt_t *contract_C09_jwt_verify_sig(jwt_t *jwt, const char *head, unsigned int head_len, const char *sig_b64)
__CPROVER_requires(JWT_WITH_KEY(jwt))
__CPROVER_requires(C09_BITS_RANGE(jwt))
__CPROVER_requires(SPEC_ERRMSG_TERMINATED(jwt))
__CPROVER_requires(OBS(alg, jwt->alg) && OBS(bits, jwt->key->bits) && OBS(kty, jwt->key->kty))
__CPROVER_requires(sig_b64 != NULL)
__CPROVER_requires(OPS_TABLE_OBEYS(C09))
__CPROVER_assigns(jwt->error, SPEC_ERRMSG_FRAME(jwt), OPS_GHOST_ASSIGNS)
__CPROVER_ensures(__CPROVER_return_value == jwt)
/* verification succeeds (flag clear) only at or above the floor */
__CPROVER_ensures((__CPROVER_old(jwt->error) == 0 && jwt->error == 0) ==> C09_FLOOR_OK(jwt))
/* below the floor: an error WITH a message, and no provider was consulted */
__CPROVER_ensures(!C09_FLOOR_OK(jwt) ==> (jwt->error != 0 && jwt->error_msg[0] != 0 && C09_NO_OPS_CALLED))
__CPROVER_ensures(SPEC_ERRMSG_TERMINATED(jwt))
;
#endif
