/* jwt_c.h -- named contracts for the functions of libjwt/jwt.c.
 * Attached to the REAL definitions (including the static ones) with
 *    --enforce-contract  f/contract_Cxx_f
 * One contract text per function (DECL_<fn> macros); the property-specific
 * clauses are appended per property so that a failing obligation names the
 * property it belongs to. */
#ifndef VERIF_JWT_C_H
#define VERIF_JWT_C_H
#include "spec.h"
#include "ops.h"
#include "jwt_memory_c.h"
#include "base64_c.h"

#ifdef VERIF_TU_JWT
static int __check_hmac(jwt_t *jwt);
static int __check_key_bits(jwt_t *jwt);
static int _verify_sha_hmac(jwt_t *jwt, const char *head, unsigned int head_len, const char *sig);
#endif

VERIF_OBS_DECL(alg) VERIF_OBS_DECL(bits) VERIF_OBS_DECL(kty)
#define JWT_WITH_KEY(jwt) (__CPROVER_is_fresh(jwt, sizeof(*jwt)) && \
			   __CPROVER_is_fresh((jwt)->key, sizeof(*(jwt)->key)))

/* ============ C09 key-strength floor / C02 key-family gate ============== */
/* bits travels through `int key_bits = jwt->key->bits`; the stated range is
 * what process_octet / EVP_PKEY_get_size_t_param can produce (DESIGN s.5) */
#define C09_BITS_RANGE(jwt) ((jwt)->key->bits <= 0x7fffffff)
#define CHK_COMMON_REQ(jwt) \
__CPROVER_requires(JWT_WITH_KEY(jwt)) \
__CPROVER_requires(C09_BITS_RANGE(jwt)) \
__CPROVER_requires(SPEC_ERRMSG_TERMINATED(jwt)) \
__CPROVER_requires(OBS(alg, jwt->alg) && OBS(bits, jwt->key->bits) && OBS(kty, jwt->key->kty))

#define DECL___check_hmac(NAME, CLAUSES) \
int NAME(jwt_t *jwt) \
CHK_COMMON_REQ(jwt) \
__CPROVER_assigns(jwt->error, SPEC_ERRMSG_FRAME(jwt)) \
__CPROVER_ensures(__CPROVER_return_value == 0 || __CPROVER_return_value == 1) \
/* a refusal for an HS algorithm is reported: flag and non-empty message */ \
__CPROVER_ensures((__CPROVER_return_value != 0 && SPEC_IS_HS(jwt->alg)) ==> \
		  (jwt->error == 1 && jwt->error_msg[0] != 0)) \
__CPROVER_ensures(__CPROVER_return_value == 0 ==> jwt->error == __CPROVER_old(jwt->error)) \
__CPROVER_ensures(SPEC_ERRMSG_TERMINATED(jwt)) \
SPEC_ERR_MONOTONE(jwt) \
CLAUSES
/* C09: accepted only at or above the floor, and keys at or above the floor
 * (of the right family) work */
#define C09_HMAC_CLAUSES \
__CPROVER_ensures(__CPROVER_return_value == 0 ==> SPEC_HMAC_OK(jwt->alg, jwt->key->bits)) \
__CPROVER_ensures((SPEC_HMAC_OK(jwt->alg, jwt->key->bits) && jwt->key->kty == JWK_KEY_TYPE_OCT) ==> __CPROVER_return_value == 0)
/* C02: an HS algorithm is never evaluated with a key of another family */
#define C02_HMAC_CLAUSES \
__CPROVER_ensures(__CPROVER_return_value == 0 ==> (SPEC_IS_HS(jwt->alg) && jwt->key->kty == JWK_KEY_TYPE_OCT))
DECL___check_hmac(contract_C09___check_hmac, C09_HMAC_CLAUSES);
DECL___check_hmac(contract_C02___check_hmac, C02_HMAC_CLAUSES);
DECL___check_hmac(contract_all___check_hmac, C09_HMAC_CLAUSES C02_HMAC_CLAUSES);

#define DECL___check_key_bits(NAME, CLAUSES) \
int NAME(jwt_t *jwt) \
CHK_COMMON_REQ(jwt) \
__CPROVER_assigns(jwt->error, SPEC_ERRMSG_FRAME(jwt)) \
__CPROVER_ensures(__CPROVER_return_value == 0 || __CPROVER_return_value == 1) \
__CPROVER_ensures((__CPROVER_return_value != 0 && SPEC_IS_ASYM(jwt->alg)) ==> \
		  (jwt->error == 1 && jwt->error_msg[0] != 0)) \
__CPROVER_ensures(__CPROVER_return_value == 0 ==> jwt->error == __CPROVER_old(jwt->error)) \
__CPROVER_ensures(SPEC_ERRMSG_TERMINATED(jwt)) \
SPEC_ERR_MONOTONE(jwt) \
CLAUSES
#define C09_KEYBITS_CLAUSES \
__CPROVER_ensures(__CPROVER_return_value == 0 ==> SPEC_ASYM_OK(jwt->alg, jwt->key->bits)) \
__CPROVER_ensures((SPEC_ASYM_OK(jwt->alg, jwt->key->bits) && jwt->key->kty == SPEC_KTY_FOR(jwt->alg)) ==> __CPROVER_return_value == 0)
#define C02_KEYBITS_CLAUSES \
__CPROVER_ensures(__CPROVER_return_value == 0 ==> (SPEC_IS_ASYM(jwt->alg) && jwt->key->kty == SPEC_KTY_FOR(jwt->alg)))
DECL___check_key_bits(contract_C09___check_key_bits, C09_KEYBITS_CLAUSES);
DECL___check_key_bits(contract_C02___check_key_bits, C02_KEYBITS_CLAUSES);
DECL___check_key_bits(contract_all___check_key_bits, C09_KEYBITS_CLAUSES C02_KEYBITS_CLAUSES);

/* jwt_sign: a provider operation is reached only after the matching check
 * accepted THIS algorithm and THIS key (the gate is the precondition of the
 * provider-op contract, asserted at the call through jwt_ops) */
#define DECL_jwt_sign(NAME, P, CLAUSES) \
int NAME(jwt_t *jwt, char **out, unsigned int *len, const char *str, unsigned int str_len) \
CHK_COMMON_REQ(jwt) \
__CPROVER_requires(__CPROVER_is_fresh(out, sizeof(*out)) && __CPROVER_is_fresh(len, sizeof(*len)) && *out == NULL) \
__CPROVER_requires(OPS_TABLE_OBEYS(P)) \
__CPROVER_assigns(*out, *len, jwt->error, SPEC_ERRMSG_FRAME(jwt), OPS_GHOST_ASSIGNS_SIGN) \
__CPROVER_ensures(__CPROVER_return_value == 0 || __CPROVER_return_value == 1) \
__CPROVER_ensures(__CPROVER_return_value == 0 ==> (*len >= 1 && *len <= 1024 && __CPROVER_is_fresh(*out, *len))) \
/* "the call fails with an error instead" */ \
__CPROVER_ensures(__CPROVER_return_value != 0 ==> (jwt->error != 0 && jwt->error_msg[0] != 0)) \
__CPROVER_ensures(SPEC_ERRMSG_TERMINATED(jwt)) \
SPEC_ERR_MONOTONE(jwt) \
/* what was signed: exactly (str, str_len) with this key and algorithm */ \
__CPROVER_ensures((__CPROVER_return_value == 0 && SPEC_IS_HS(jwt->alg)) ==> \
	(g_mac_key == jwt->key->oct.key && g_mac_keylen == jwt->key->oct.len && g_mac_data == str && \
	 g_mac_len == str_len && g_mac_hash == SPEC_HASH_BITS(jwt->alg) && g_mac_out == *out && \
	 *len == (unsigned int)SPEC_HASH_BITS(jwt->alg) / 8)) \
__CPROVER_ensures((__CPROVER_return_value == 0 && !SPEC_IS_HS(jwt->alg)) ==> \
	(g_sgn_done == 1 && OPS_KEYMAT_OF(jwt, g_sgn_keymat) && g_sgn_data == str && g_sgn_len == str_len && \
	 (SPEC_IS_ED(jwt->alg) || g_sgn_hash == SPEC_HASH_BITS(jwt->alg)) && g_sgn_pss == SPEC_IS_PS(jwt->alg) && \
	 (SPEC_IS_ES(jwt->alg) ==> *len == 2 * SPEC_EC_N(jwt->key->bits)))) \
CLAUSES
#define C09_FLOOR_OK(jwt) (SPEC_HMAC_OK((jwt)->alg, (jwt)->key->bits) || SPEC_ASYM_OK((jwt)->alg, (jwt)->key->bits))
#define C02_FAMILY_OK(jwt) (SPEC_IS_SIGNING((jwt)->alg) && (jwt)->key->kty == SPEC_KTY_FOR((jwt)->alg))
#define C09_SIGN_CLAUSES \
__CPROVER_ensures(__CPROVER_return_value == 0 ==> C09_FLOOR_OK(jwt))
#define C02_SIGN_CLAUSES \
__CPROVER_ensures(__CPROVER_return_value == 0 ==> C02_FAMILY_OK(jwt))
DECL_jwt_sign(contract_C09_jwt_sign, C09, C09_SIGN_CLAUSES);
DECL_jwt_sign(contract_C02_jwt_sign, C02, C02_SIGN_CLAUSES);
DECL_jwt_sign(contract_nogate_jwt_sign, nogate, );
DECL_jwt_sign(contract_C01_jwt_sign, nogate, );
DECL_jwt_sign(contract_all_jwt_sign, all, GATE_ITEM_WF C09_SIGN_CLAUSES C02_SIGN_CLAUSES);

/* ===================== C02: header alg parsing is exact ================= */
#define STR_ALG_CLAUSE(A) __CPROVER_ensures((alg != NULL && SPEC_NAME_IS(alg, A)) ==> __CPROVER_return_value == (A))
jwt_alg_t contract_C02_jwt_str_alg(const char *alg)
__CPROVER_requires(alg == NULL || __CPROVER_r_ok(alg, 1))
__CPROVER_assigns()
__CPROVER_ensures(alg == NULL ==> __CPROVER_return_value == JWT_ALG_INVAL)
__CPROVER_ensures(__CPROVER_return_value >= JWT_ALG_NONE && __CPROVER_return_value <= JWT_ALG_INVAL)
/* an algorithm is returned only for its exact RFC 7518 name ... */
__CPROVER_ensures((alg != NULL && __CPROVER_return_value != JWT_ALG_INVAL) ==> SPEC_NAME_IS(alg, __CPROVER_return_value))
/* ... and every exact name is recognised */
STR_ALG_CLAUSE(JWT_ALG_NONE) STR_ALG_CLAUSE(JWT_ALG_HS256) STR_ALG_CLAUSE(JWT_ALG_HS384) STR_ALG_CLAUSE(JWT_ALG_HS512)
STR_ALG_CLAUSE(JWT_ALG_RS256) STR_ALG_CLAUSE(JWT_ALG_RS384) STR_ALG_CLAUSE(JWT_ALG_RS512)
STR_ALG_CLAUSE(JWT_ALG_ES256) STR_ALG_CLAUSE(JWT_ALG_ES384) STR_ALG_CLAUSE(JWT_ALG_ES512)
STR_ALG_CLAUSE(JWT_ALG_PS256) STR_ALG_CLAUSE(JWT_ALG_PS384) STR_ALG_CLAUSE(JWT_ALG_PS512)
STR_ALG_CLAUSE(JWT_ALG_ES256K) STR_ALG_CLAUSE(JWT_ALG_EDDSA)
;
/* C05 lemma L1 / C10: the name written for an algorithm is the RFC name */
const char *contract_C05_jwt_alg_str(jwt_alg_t alg)
__CPROVER_assigns()
__CPROVER_ensures(SPEC_ALG_KNOWN(alg) ==> (__CPROVER_return_value != NULL && SPEC_NAME_IS(__CPROVER_return_value, alg)))
__CPROVER_ensures(!SPEC_ALG_KNOWN(alg) ==> __CPROVER_return_value == NULL)
;

/* ====================== shape contracts (shared) ======================= */
/* memory shape of the base64url helpers; their functional contracts are
 * proved in C11 (same functions, stronger clauses).  B64_MAXLEN: lengths
 * travel in int inside libjwt. */
#define B64_MAXLEN 0x5ffffffd

#define DECL_jwt_base64uri_decode(NAME, EXTRA) \
void *NAME(const char *src, int *ret_len) \
__CPROVER_requires(src == NULL || __CPROVER_r_ok(src, 1)) \
__CPROVER_requires(ret_len == NULL || __CPROVER_w_ok(ret_len, sizeof(*ret_len))) \
__CPROVER_assigns(ret_len != NULL: *ret_len) \
__CPROVER_ensures(__CPROVER_return_value == NULL || \
	(src != NULL && ret_len != NULL && *ret_len >= 1 && *ret_len <= B64_MAXLEN && \
	 __CPROVER_is_fresh(__CPROVER_return_value, (size_t)*ret_len + 1))) \
EXTRA
DECL_jwt_base64uri_decode(contract_shape_jwt_base64uri_decode, );

#define DECL_jwt_base64uri_encode(NAME, EXTRA) \
int NAME(char **_dst, const char *plain, int plain_len) \
__CPROVER_requires(__CPROVER_w_ok(_dst, sizeof(*_dst))) \
__CPROVER_requires(plain_len >= 0 && plain_len <= B64_MAXLEN) \
__CPROVER_requires(plain_len == 0 || __CPROVER_r_ok(plain, plain_len)) \
__CPROVER_assigns(*_dst) \
__CPROVER_ensures(__CPROVER_return_value == -1 || \
	(__CPROVER_return_value >= 0 && __CPROVER_return_value <= 4 * ((plain_len + 2) / 3) && \
	 ((__CPROVER_return_value == 0) == (plain_len == 0)) && \
	 __CPROVER_is_fresh(*_dst, (size_t)__CPROVER_return_value + 1) && \
	 (*_dst)[__CPROVER_return_value] == 0)) \
__CPROVER_ensures(__CPROVER_return_value == -1 ==> *_dst == __CPROVER_old(*_dst)) \
EXTRA
DECL_jwt_base64uri_encode(contract_shape_jwt_base64uri_encode, );

/* C11: the real base64url wrappers against shape + url-alphabet + length-gate clauses */
extern size_t g_last_strlen;	/* ghost: result of the last strlen() (stubs/libc.c) */
#define C11_DEC_CLAUSES \
/* length 1 modulo 4 is rejected; the result is never longer than 3 bytes per 4 characters */ \
__CPROVER_ensures(__CPROVER_return_value != NULL ==> (g_last_strlen % 4 != 1 && \
	(size_t)*ret_len <= 3 * ((g_last_strlen + 3) / 4))) \
/* a text too long for the int lengths used inside is rejected -- never decoded as the prefix its wrapped length names */ \
__CPROVER_ensures(__CPROVER_return_value != NULL ==> g_last_strlen <= 0x7fffffff)
#define DECL_C11_jwt_base64uri_decode(NAME) \
void *NAME(const char *src, int *ret_len) \
__CPROVER_requires(src == NULL || __CPROVER_r_ok(src, 1)) \
__CPROVER_requires(ret_len == NULL || __CPROVER_w_ok(ret_len, sizeof(*ret_len))) \
__CPROVER_assigns(ret_len != NULL: *ret_len; g_last_strlen) \
__CPROVER_ensures(__CPROVER_return_value == NULL || \
	(src != NULL && ret_len != NULL && *ret_len >= 1 && *ret_len <= B64_MAXLEN && \
	 __CPROVER_is_fresh(__CPROVER_return_value, (size_t)*ret_len + 1))) \
C11_DEC_CLAUSES
DECL_C11_jwt_base64uri_decode(contract_C11_jwt_base64uri_decode);
#define C11_ENC_CLAUSES \
/* unpadded, URL alphabet: no '=', '+' or '/' anywhere in the result (ghost index) */ \
__CPROVER_ensures((__CPROVER_return_value > 0 && g_str_k < (size_t)__CPROVER_return_value) ==> \
	((*_dst)[g_str_k] != '=' && (*_dst)[g_str_k] != '+' && (*_dst)[g_str_k] != '/')) \
__CPROVER_ensures(__CPROVER_return_value >= 0 ==> __CPROVER_return_value == 4 * ((plain_len + 2) / 3))
DECL_jwt_base64uri_encode(contract_C11_jwt_base64uri_encode, C11_ENC_CLAUSES);

/* jwt_strcmp (jwt-memory.c), shape only */
#define DECL_jwt_strcmp(NAME, EXTRA) \
int NAME(const char *str1, const char *str2) \
__CPROVER_requires(str1 != NULL && str2 != NULL) \
__CPROVER_assigns() \
EXTRA
DECL_jwt_strcmp(contract_shape_jwt_strcmp, );

/* ---- _verify_sha_hmac, jwt_verify_sig ---- */

#define DECL__verify_sha_hmac(NAME, P, CLAUSES) \
int NAME(jwt_t *jwt, const char *head, unsigned int head_len, const char *sig) \
CHK_COMMON_REQ(jwt) \
__CPROVER_requires(sig != NULL) \
__CPROVER_requires(OPS_TABLE_OBEYS(P)) \
__CPROVER_assigns(jwt->error, SPEC_ERRMSG_FRAME(jwt), OPS_GHOST_ASSIGNS_SIGN) \
__CPROVER_ensures(__CPROVER_return_value == 0 || __CPROVER_return_value == 1) \
__CPROVER_ensures(SPEC_ERRMSG_TERMINATED(jwt)) \
SPEC_ERR_MONOTONE(jwt) \
CLAUSES
#define C09_VSH_CLAUSES \
__CPROVER_ensures(__CPROVER_return_value == 0 ==> C09_FLOOR_OK(jwt))
#define C02_VSH_CLAUSES \
__CPROVER_ensures(__CPROVER_return_value == 0 ==> C02_FAMILY_OK(jwt))
/* C01 (HMAC): success only if the MAC primitive ran over exactly (head,
 * head_len) under exactly the key's octets with the hash the algorithm names */
#define C01_MAC_EXACTLY(jwt, head, head_len) ( \
	g_mac_key == (jwt)->key->oct.key && g_mac_keylen == (jwt)->key->oct.len && \
	g_mac_data == (const void *)(head) && g_mac_len == (head_len) && g_mac_hash == SPEC_HASH_BITS((jwt)->alg))
#define C01_VSH_CLAUSES \
__CPROVER_requires(SPEC_IS_HS(jwt->alg)) \
__CPROVER_ensures(__CPROVER_return_value == 0 ==> (SPEC_IS_HS(jwt->alg) && C01_MAC_EXACTLY(jwt, head, head_len)))
DECL__verify_sha_hmac(contract_C01__verify_sha_hmac, nogate, C01_VSH_CLAUSES);
DECL__verify_sha_hmac(contract_C09__verify_sha_hmac, C09, C09_VSH_CLAUSES);
DECL__verify_sha_hmac(contract_all__verify_sha_hmac, all, GATE_ITEM_WF C01_VSH_CLAUSES C09_VSH_CLAUSES C02_VSH_CLAUSES);
DECL__verify_sha_hmac(contract_C02__verify_sha_hmac, C02, C02_VSH_CLAUSES);

#define DECL_jwt_verify_sig(NAME, P, CLAUSES) \
jwt_t *NAME(jwt_t *jwt, const char *head, unsigned int head_len, const char *sig_b64) \
CHK_COMMON_REQ(jwt) \
__CPROVER_requires(sig_b64 != NULL) \
__CPROVER_requires(OPS_TABLE_OBEYS(P)) \
__CPROVER_assigns(jwt->error, SPEC_ERRMSG_FRAME(jwt), OPS_GHOST_ASSIGNS) \
__CPROVER_ensures(__CPROVER_return_value == jwt) \
__CPROVER_ensures(SPEC_ERRMSG_TERMINATED(jwt)) \
SPEC_ERR_MONOTONE(jwt) \
CLAUSES
#define C09_VS_CLAUSES \
/* verification succeeds (flag clear) only at or above the floor */ \
__CPROVER_ensures((__CPROVER_old(jwt->error) == 0 && jwt->error == 0) ==> C09_FLOOR_OK(jwt)) \
/* below the floor: an error WITH a message, and no provider was consulted */ \
__CPROVER_ensures(!C09_FLOOR_OK(jwt) ==> (jwt->error != 0 && jwt->error_msg[0] != 0))
#define C02_VS_CLAUSES \
__CPROVER_ensures((__CPROVER_old(jwt->error) == 0 && jwt->error == 0) ==> C02_FAMILY_OK(jwt)) \
__CPROVER_ensures(!C02_FAMILY_OK(jwt) ==> (jwt->error != 0 && jwt->error_msg[0] != 0))
/* C01: the flag stays clear only if a primitive vouched for exactly this key,
 * this algorithm and this data range; every other path leaves the flag set */
#define C01_VS_CLAUSES \
__CPROVER_ensures((__CPROVER_old(jwt->error) == 0 && jwt->error == 0) ==> ( \
	SPEC_IS_SIGNING(jwt->alg) && \
	(SPEC_IS_HS(jwt->alg) ? C01_MAC_EXACTLY(jwt, head, head_len) : \
	 (g_ver_valid == 1 && OPS_KEYMAT_OF(jwt, g_ver_keymat) && g_ver_data == (const void *)head && \
	  g_ver_len == head_len && g_ver_hash == SPEC_HASH_BITS(jwt->alg) && g_ver_pss == SPEC_IS_PS(jwt->alg) && \
	  g_ver_family == (int)SPEC_KTY_FOR(jwt->alg)))))
DECL_jwt_verify_sig(contract_C01_jwt_verify_sig, nogate, C01_VS_CLAUSES);
DECL_jwt_verify_sig(contract_C09_jwt_verify_sig, C09, C09_VS_CLAUSES);
DECL_jwt_verify_sig(contract_all_jwt_verify_sig, all, GATE_ITEM_WF C01_VS_CLAUSES C09_VS_CLAUSES C02_VS_CLAUSES);
DECL_jwt_verify_sig(contract_C02_jwt_verify_sig, C02, C02_VS_CLAUSES);

#endif
