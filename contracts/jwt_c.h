/* jwt_c.h -- named contracts for the functions of libjwt/jwt.c.
 * Attached to the REAL definitions (including the static ones) with
 *    --enforce-contract  f/contract_Cxx_f
 * The forward declarations below only make the static functions nameable from
 * the harness that follows the #include of the real source. */
#ifndef VERIF_JWT_C_H
#define VERIF_JWT_C_H
#include "spec.h"
#include "ops.h"

static int __check_hmac(jwt_t *jwt);
static int __check_key_bits(jwt_t *jwt);

VERIF_OBS_DECL(alg) VERIF_OBS_DECL(bits) VERIF_OBS_DECL(kty)
#define JWT_WITH_KEY(jwt) (__CPROVER_is_fresh(jwt, sizeof(*jwt)) && \
			   __CPROVER_is_fresh((jwt)->key, sizeof(*(jwt)->key)))

/* ===================== C09: key-strength floor ========================== */
/* bits travels through `int key_bits = jwt->key->bits`; the stated range is
 * what process_octet / EVP_PKEY_get_size_t_param can produce (DESIGN s.5) */
#define C09_BITS_RANGE(jwt) ((jwt)->key->bits <= 0x7fffffff)

int contract_C09___check_hmac(jwt_t *jwt)
__CPROVER_requires(JWT_WITH_KEY(jwt))
__CPROVER_requires(C09_BITS_RANGE(jwt))
__CPROVER_requires(SPEC_ERRMSG_TERMINATED(jwt))
__CPROVER_requires(OBS(alg, jwt->alg) && OBS(bits, jwt->key->bits) && OBS(kty, jwt->key->kty))
__CPROVER_assigns(jwt->error, __CPROVER_object_whole(jwt->error_msg))
__CPROVER_ensures(__CPROVER_return_value == 0 || __CPROVER_return_value == 1)
/* accepted only at or above the floor ... */
__CPROVER_ensures(__CPROVER_return_value == 0 ==> SPEC_HMAC_OK(jwt->alg, jwt->key->bits))
/* ... and keys at or above the floor work */
__CPROVER_ensures(SPEC_HMAC_OK(jwt->alg, jwt->key->bits) ==> __CPROVER_return_value == 0)
/* a refusal for an HS algorithm is reported: flag and non-empty message */
__CPROVER_ensures((__CPROVER_return_value != 0 && SPEC_IS_HS(jwt->alg)) ==>
		  (jwt->error == 1 && jwt->error_msg[0] != 0))
__CPROVER_ensures(__CPROVER_return_value == 0 ==> jwt->error == __CPROVER_old(jwt->error))
__CPROVER_ensures(SPEC_ERRMSG_TERMINATED(jwt))
;

int contract_C09___check_key_bits(jwt_t *jwt)
__CPROVER_requires(JWT_WITH_KEY(jwt))
__CPROVER_requires(C09_BITS_RANGE(jwt))
__CPROVER_requires(SPEC_ERRMSG_TERMINATED(jwt))
__CPROVER_requires(OBS(alg, jwt->alg) && OBS(bits, jwt->key->bits) && OBS(kty, jwt->key->kty))
__CPROVER_assigns(jwt->error, __CPROVER_object_whole(jwt->error_msg))
__CPROVER_ensures(__CPROVER_return_value == 0 || __CPROVER_return_value == 1)
__CPROVER_ensures(__CPROVER_return_value == 0 ==> SPEC_ASYM_OK(jwt->alg, jwt->key->bits))
__CPROVER_ensures(SPEC_ASYM_OK(jwt->alg, jwt->key->bits) ==> __CPROVER_return_value == 0)
__CPROVER_ensures((__CPROVER_return_value != 0 && SPEC_IS_ASYM(jwt->alg)) ==>
		  (jwt->error == 1 && jwt->error_msg[0] != 0))
__CPROVER_ensures(__CPROVER_return_value == 0 ==> jwt->error == __CPROVER_old(jwt->error))
__CPROVER_ensures(SPEC_ERRMSG_TERMINATED(jwt))
;
#endif
