/* jwt_obj_c.h -- contracts for the per-call token object of libjwt/jwt.c (jwt_new, jwt_free,
 * jwt_get_alg) and for the *_free of builders/checkers (C17, C06, C13):
 *   jwt_new(): NULL (an allocation failed) or a complete, live, EMPTY object -- both JSON
 *   containers present and distinct, no key, alg none, no error.  Never half-built.
 *   jwt_free() / *_free(): NULL is accepted; otherwise both containers are released exactly once
 *   (the jansson model asserts "released twice" / "used after release") and the object is freed. */
#ifndef VERIF_JWT_OBJ_C_H
#define VERIF_JWT_OBJ_C_H
#include "spec.h"
#include "jansson_model.h"
#define DOC_EMPTY(d) ((d) != NULL && (d)->type == JSON_OBJECT && (d)->refcount == 1 && (d)->tracked == NULL)
jwt_t *contract_C17_jwt_new(void)
__CPROVER_assigns()
__CPROVER_ensures(__CPROVER_return_value == NULL || (__CPROVER_is_fresh(__CPROVER_return_value, sizeof(jwt_t)) &&
	__CPROVER_return_value->key == NULL && __CPROVER_return_value->alg == JWT_ALG_NONE && __CPROVER_return_value->error == 0 &&
	__CPROVER_return_value->error_msg[0] == 0 && __CPROVER_return_value->error_msg[JWT_ERR_LEN - 1] == 0 && __CPROVER_return_value->checker == NULL &&
	__CPROVER_return_value->claims != __CPROVER_return_value->headers))
__CPROVER_ensures(__CPROVER_return_value == NULL || (DOC_EMPTY(__CPROVER_return_value->claims) && DOC_EMPTY(__CPROVER_return_value->headers)))
;
jwt_alg_t contract_C14_jwt_get_alg(const jwt_t *jwt)
__CPROVER_requires(jwt == NULL || __CPROVER_is_fresh(jwt, sizeof(*jwt)))
__CPROVER_assigns()
__CPROVER_ensures(__CPROVER_return_value == (jwt == NULL ? JWT_ALG_INVAL : jwt->alg))
;
#define DOC_LIVE1(d) ((d) == NULL || (__CPROVER_is_fresh(d, sizeof(vj_t)) && (d)->type >= JSON_OBJECT && (d)->type <= JSON_NULL && (d)->refcount == 1 && (d)->tracked == NULL))
void contract_C17_jwt_free(jwt_t *jwt)
__CPROVER_requires(jwt == NULL || (__CPROVER_is_fresh(jwt, sizeof(*jwt)) && DOC_LIVE1(jwt->claims) && DOC_LIVE1(jwt->headers)))
__CPROVER_assigns(jwt != NULL: __CPROVER_object_whole(jwt); jwt != NULL && jwt->claims != NULL: __CPROVER_object_whole(jwt->claims);
		  jwt != NULL && jwt->headers != NULL: __CPROVER_object_whole(jwt->headers))
__CPROVER_frees(jwt)
__CPROVER_ensures(jwt == NULL || __CPROVER_was_freed(jwt))
;
#if defined(VERIF_TU_CHECKER) || defined(VERIF_TU_BUILDER)
#ifdef VERIF_TU_CHECKER
typedef jwt_checker_t verif_cmdf_t;
#else
typedef jwt_builder_t verif_cmdf_t;
#endif
void contract_C17_cmd_free(verif_cmdf_t *__cmd)
__CPROVER_requires(__cmd == NULL || (__CPROVER_is_fresh(__cmd, sizeof(*__cmd)) && DOC_LIVE1(__cmd->c.payload) && DOC_LIVE1(__cmd->c.headers)))
__CPROVER_assigns(__cmd != NULL: __CPROVER_object_whole(__cmd); __cmd != NULL && __cmd->c.payload != NULL: __CPROVER_object_whole(__cmd->c.payload);
		  __cmd != NULL && __cmd->c.headers != NULL: __CPROVER_object_whole(__cmd->c.headers))
__CPROVER_frees(__cmd)
__CPROVER_ensures(__cmd == NULL || __CPROVER_was_freed(__cmd))
;
#endif
#endif
