#!/bin/bash
# seedtest.sh PATCH PROP [PROP...]  -- apply a seeded change to /repo, run the quick
# checks of the given properties, and undo the change straight afterwards.
patch=$1; shift
cd /repo || exit 3
if ! git diff --quiet; then echo "refusing: /repo has uncommitted changes"; exit 3; fi
git apply "$patch" || { echo "patch does not apply"; exit 3; }
trap 'git -C /repo checkout -- . ' EXIT
cd /verif
rc=0
for p in "$@"; do
  bin/check $p --no-evidence > /tmp/seedtest.$$.log 2>&1; r=$?
  echo "== $p exit=$r"; grep -E "^(FAIL|INCONCLUSIVE|VIOLATION|KNOWN|      FAILED)" /tmp/seedtest.$$.log | head -12
  [ $r -ne 0 ] && rc=$r
done
rm -f /tmp/seedtest.$$.log
exit $rc
