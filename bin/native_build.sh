#!/bin/bash
# native_build.sh DRIVER.c OUT_EXE [libjwt source files the driver #includes itself ...]
# Builds a native executable from the CURRENT working tree of $VERIF_REPO
# (default /repo): the driver plus every libjwt source of the baseline
# configuration (OpenSSL + GnuTLS), except the ones the driver #includes
# itself (to reach static functions).  Used for counterexample replay.
set -e
REPO=${VERIF_REPO:-/repo}
VERIF=$(cd "$(dirname "$0")/.." && pwd)
drv=$1; out=$2; shift 2
skip=" $* "
tmp=$(dirname "$out")/nb.$$
mkdir -p "$tmp"
trap 'rm -rf "$tmp"' EXIT
exp="$REPO/_build"
[ -f "$exp/jwt_export.h" ] || exp="$VERIF/stubs/export"
CF="-O0 -g -w -I$tmp -I$REPO/include -I$REPO/libjwt -I$exp -I$VERIF/contracts -I$VERIF/replay -DHAVE_OPENSSL -DHAVE_GNUTLS -D_GNU_SOURCE -DVERIF_NATIVE"
cc -E "$REPO/libjwt/jwt-common.c" -DJWT_BUILDER -o "$tmp/jwt-builder.i"
cc -E "$REPO/libjwt/jwt-common.c" -DJWT_CHECKER -o "$tmp/jwt-checker.i"
srcs=""
for f in base64.c jwt-memory.c jwt.c jwks.c jwt-setget.c jwt-crypto-ops.c jwt-encode.c jwt-verify.c jwt-builder.c jwt-checker.c openssl/jwk-parse.c openssl/sign-verify.c gnutls/sign-verify.c; do
  case "$skip" in *" libjwt/$f "*) continue;; esac
  srcs="$srcs $REPO/libjwt/$f"
done
cc $CF "$drv" $srcs -o "$out" -ljansson -lcrypto -lgnutls
