#!/bin/bash
# seedbatch.sh SEED-ID...  -- evaluate a list of seeds one after the other (each: bin/seedtest_wt.sh)
V=$(cd "$(dirname "$0")/.." && pwd); cd $V
for s in "$@"; do VERIF_JOBS=${VERIF_JOBS:-12} bin/seedtest_wt.sh $s > /dev/null 2>&1; echo "$s: $(tail -1 seeded/$s/result.txt)"; done
echo ALLDONE
