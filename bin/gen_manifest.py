#!/usr/bin/env python3
"""Regenerates MANIFEST.json from units/*.json + manifest_meta.json.
A property is claimed iff units/<id>.json exists and is listed in
manifest_meta.json 'claimed'; everything else goes to not_applicable with the
reason recorded in manifest_meta.json."""
import json, os
V = os.path.dirname(os.path.dirname(os.path.abspath(__file__)))
meta = json.load(open(os.path.join(V, "manifest_meta.json")))
props = [json.loads(l) for l in open(os.path.join(V, "properties.jsonl"))]
checks, na = [], []
for p in props:
    pid = p["id"]
    m = meta["claimed"].get(pid)
    if m and os.path.exists(os.path.join(V, "units", pid + ".json")):
        checks.append({
            "property_id": pid,
            "quick_cmd": "bin/check %s --tier quick" % pid,
            "thorough_cmd": "bin/check %s --tier thorough" % pid,
            "evidence_file": "/verif/evidence/%s.json" % pid,
            "replay_cmd_template": "bin/check --replay {path}",
            "engine": "cbmc-contracts",
            "level_claimed": {"category": m.get("category", "proof"), "text": m["text"], "design_ref": m.get("design_ref", "DESIGN.md section 6 (%s)" % pid)},
            "level_note": m["note"],
            "technique": m.get("technique", "CBMC 6.11 function/loop contracts (goto-instrument --dfcc) enforced on the real libjwt functions")})
    else:
        na.append({"property_id": pid, "reason": meta["not_applicable"].get(pid, "units for this property are not built yet; nothing is claimed")})
man = {"version": 1,
       "setup_cmd": "true",
       "hooks": {"guard": "LIBJWT_VERIF", "enable": "none needed: contracts are attached from /verif/contracts via goto-cc -include; -DLIBJWT_VERIF is passed to every verified TU but no source line in /repo depends on it",
                 "baseline_off_cmd": "cmake -G Ninja -B /repo/_build -S /repo -DWITH_GNUTLS=ON -DWITH_TESTS=ON >/dev/null && cmake --build /repo/_build >/dev/null && ctest --test-dir /repo/_build -j8 --timeout 900",
                 "source_commits": meta.get("hook_commits", []), "add_only": True},
       "engines": [{"name": "cbmc-contracts", "path": "bin/check", "serves_properties": [c["property_id"] for c in checks],
                    "kind_free_text": "contract-based deductive verification: goto-cc of the real /repo sources + named contracts from /verif/contracts, goto-instrument --dfcc --enforce-contract/--replace-call-with-contract/--apply-loop-contracts, cbmc 6.11 (SAT); native replay of counterexamples"}],
       "checks": checks,
       "notes": meta.get("notes", ""),
       "not_applicable": na}
json.dump(man, open(os.path.join(V, "MANIFEST.json"), "w"), indent=1)
print("claimed:", [c["property_id"] for c in checks])
