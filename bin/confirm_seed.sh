#!/bin/bash
# confirm_seed.sh Cxx L  -- independent confirmation of a seeded change delivered in /tmp/seedout/Cxx
# (patchL.diff, demoL.sh) using the scratch worktree /tmp/seedwt/Cxx: the patched tree builds, the whole
# ctest suite is green, the demonstration fails; the clean tree makes it pass.  Prints a log; exit 0 iff all hold.
p=$1; L=$2; wt=/tmp/seedwt/$p; so=${SEEDOUT:-/tmp/seedout}/$p
cd $wt || exit 3
git checkout -q -- . ; git status --short | grep -v '^?? _build' && { echo "worktree not clean"; exit 3; }
bld() { cmake -G Ninja -B _build -S . -DWITH_GNUTLS=ON -DWITH_TESTS=ON >/dev/null 2>&1 && cmake --build _build 2>&1 | grep -iE "warning|error" ; cmake --build _build >/dev/null 2>&1; }
echo "== HEAD $(git rev-parse --short HEAD); patch $so/patch$L.diff"
git apply $so/patch$L.diff || { echo "APPLY FAILED"; exit 3; }
git diff --stat | tail -3
bld || { echo "BUILD FAILED"; git checkout -q -- .; exit 3; }
t=$(ctest --test-dir _build -j8 --timeout 900 2>&1 | grep -E "tests passed|tests failed"); echo "patched: ctest: $t"
bash $so/demo$L.sh $wt > /tmp/confirm_$p$L.out 2>&1; r1=$?; echo "patched: demo exit=$r1: $(tail -1 /tmp/confirm_$p$L.out)"
git checkout -q -- .
bld
bash $so/demo$L.sh $wt > /tmp/confirm_$p$L.out 2>&1; r2=$?; echo "clean: demo exit=$r2: $(tail -1 /tmp/confirm_$p$L.out)"
rm -f /tmp/confirm_$p$L.out
ok=1; echo "$t" | grep -q "100% tests passed" || ok=0; [ $r1 -ne 0 ] || ok=0; [ $r2 -eq 0 ] || ok=0
echo "CONFIRMED=$ok"
[ $ok = 1 ]
