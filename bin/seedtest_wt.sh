#!/bin/bash
# seedtest_wt.sh SEED-ID [PROP...] -- like seedtest.sh, but applies seeded/<id>/patch.diff to a scratch
# worktree of /repo's HEAD (under /tmp, removed afterwards) and points the checks at it with VERIF_REPO,
# so /repo itself stays untouched while a batch of seeds is evaluated.  Writes seeded/<id>/result.txt.
id=$1; shift
V=$(cd "$(dirname "$0")/.." && pwd); cd $V || exit 3
props="$@"; [ -z "$props" ] && props=$(cat seeded/$id/props.txt)
wt=$(mktemp -d /tmp/seedrun.XXXXXX); rmdir $wt
git -C /repo worktree add --detach $wt HEAD >/dev/null 2>&1 || exit 3
trap 'git -C /repo worktree remove --force '$wt' >/dev/null 2>&1' EXIT
git -C $wt apply $V/seeded/$id/patch.diff || { echo "DOES-NOT-APPLY" > seeded/$id/result.txt; exit 3; }
rc=0; : > seeded/$id/result.txt
for p in $props; do
  VERIF_REPO=$wt bin/check $p --no-evidence > $wt.log 2>&1; r=$?
  { echo "== $p exit=$r"; grep -E "^(FAIL|INCONCLUSIVE|VIOLATION|KNOWN|      FAILED)" $wt.log | sed "s#$wt#/repo#g" | cut -c1-400 | head -14; } >> seeded/$id/result.txt
  [ $r -ne 0 ] && rc=$r
done
echo "rc=$rc" >> seeded/$id/result.txt; rm -f $wt.log
cat seeded/$id/result.txt
exit $rc
