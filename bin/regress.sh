#!/bin/bash
# regress.sh [tier] -- every property's check, one after the other, on /repo's working tree; writes evidence/*.json,
# out/full_<id>.log and out/full_summary.txt
V=$(cd "$(dirname "$0")/.." && pwd); cd $V; mkdir -p out; rm -f out/full_summary.txt
for p in C01 C02 C03 C04 C05 C06 C07 C08 C09 C10 C11 C12 C13 C14 C15 C16 C17 C18 C19 C20; do
  bin/check $p --tier ${1:-quick} > out/full_$p.log 2>&1; echo "$p exit=$?" >> out/full_summary.txt
done
echo DONE >> out/full_summary.txt
