#!/usr/bin/env python3
"""Puts seeded/TABLE.md (written by bin/seed_meta.py) and the totals between the markers of DESIGN.md section 9."""
import os, re
V = os.path.dirname(os.path.dirname(os.path.abspath(__file__)))
tbl = open(os.path.join(V, "seeded", "TABLE.md")).read().strip()
rows = tbl.split("\n")[2:]
caught = sum(1 for r in rows if "| caught" in r); nd = sum(1 for r in rows if "| not decided" in r); missed = sum(1 for r in rows if "| MISSED" in r)
later = sum(1 for r in rows if "| caught" in r and ("first evaluation: MISSED" in r or "first evaluation: not decided" in r))
tot = ("**Totals (%d seeds):** %d reported as VIOLATION by at least one check (exit 1), %d not decided (exit 2: INCONCLUSIVE, never a pass), "
       "%d missed (exit 0). %d of the caught ones (second session) were first missed or undecided and are caught since a check was strengthened "
       "(outcome column; the first session's strengthenings are listed below but its first evaluations were not kept)." % (len(rows), caught, nd, missed, later))
p = os.path.join(V, "DESIGN.md"); s = open(p).read()
s = re.sub(r"<!-- SEED_TABLE_BEGIN -->.*?<!-- SEED_TABLE_END -->", lambda m: "<!-- SEED_TABLE_BEGIN -->\n" + tbl + "\n<!-- SEED_TABLE_END -->", s, flags=re.S)
s = re.sub(r"<!-- SEED_TOTALS_BEGIN -->.*?<!-- SEED_TOTALS_END -->", lambda m: "<!-- SEED_TOTALS_BEGIN -->\n" + tot + "\n<!-- SEED_TOTALS_END -->", s, flags=re.S)
open(p, "w").write(s); print(tot)
