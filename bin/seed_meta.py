#!/usr/bin/env python3
"""Writes seeded/<id>-<L>/meta.json from result.txt and the table for DESIGN.md section 9."""
import json, os, re, sys
S = os.path.join(os.path.dirname(os.path.dirname(os.path.abspath(__file__))), "seeded")
D = {
 "C01-A": ("C01", "__verify_config_post: the 'config->key' term is dropped from the empty-signature test", "a checker that holds a key (alg not pinned) and a token with alg none and an empty signature"),
 "C01-B": ("C01", "jwt_strcmp runs a fixed 64 rounds instead of the longer length", "two strings that agree on their first 64 characters and have equal length bits, e.g. HS384/HS512 signatures differing only after position 64"),
 "C01-C": ("C01", "__check_key_type refuses keys with use=enc by returning 1 WITHOUT writing an error; the asymmetric verify branch only breaks out", "a checker whose key is an asymmetric JWK with use=enc: every token naming the key's algorithm is accepted unverified"),
 "C01-D": ("C01", "same idea as C12-B: GnuTLS verify keeps the last imported public key in file-scope statics keyed by the item's address", "key rotation within one process (free K1, load K2 at the same address)"),
 "C02-A": ("C02", "same change as C01-A (chosen independently by the C02 agent)", "as C01-A"),
 "C02-B": ("C02", "jwt_checker_verify skips the post-callback __setkey_check when the callback left the key unchanged", "a callback that changes only config->alg"),
 "C02-C": ("C02", "__verify_config_post simplified AND jwt_checker_verify re-admits the callback's choice only when the KEY changed", "a key with its own alg set with alg none, a callback that keeps the key but sets config->alg: the key accepts tokens of other algorithms of its family"),
 "C02-D": ("C02", "jwt-verify resolves 'the key's alg wins over -a' before calling setkey", "jwt-verify -a RS512 -k key-with-alg-RS256 TOKEN: no Alg mismatch, exit 0"),
 "C03-A": ("C03", "same change as C01-A (chosen independently by the C03 agent)", "as C01-A"),
 "C03-B": ("C03", "jwt_str_alg compares names with strcasecmp", "a header alg spelled 'NONE', 'None', 'hs256', ..."),
 "C03-C": ("C03", "jwt_verify_complete takes the signature to be the LAST dot-separated segment (strrchr)", "an alg none token with more than three segments and an empty last one, on a keyless checker: accepted although the third segment is not empty"),
 "C04-A": ("C04", "jwt_checker_time_leeway(.., 0) no longer re-enables a disabled check", "leeway set to -1 and later to 0 for the same claim"),
 "C04-B": ("C04", "claim checks are skipped for unsigned tokens", "an alg none token with an expired exp / wrong iss on a keyless checker"),
 "C04-C": ("C04", "exp/nbf compared through a helper returning now - claim (overflows for claims near INT64_MIN)", "a token with exp or nbf within 'now' of INT64_MIN: long-expired token accepted"),
 "C04-D": ("C04", "payload parsed with JSON_ALLOW_NUL while string claims are still compared with strcmp", "an iss/sub/aud claim of the form <expected>\\u0000<anything>"),
 "C05-A": ("C05", "openssl_verify_sha_pem rejects RSA signatures whose length differs from bits/8 (rounds down)", "an RSA key whose modulus length is not a multiple of 8 bits"),
 "C05-B": ("C05", "time claims are written through a helper taking int (narrowing)", "a clock value or offset beyond 2^31"),
 "C05-C": ("C05", "jwt_checker_verify copies the per-call error state back only when it is set (sticky checker error)", "an error on a checker, no error_clear, then a good token: reported as failed"),
 "C05-D": ("C05", "same idea as C10-B: time claims written through a helper taking the offset as int", "an nbf / exp offset of 2^31 seconds or more"),
 "C06-A": ("C06", "base64_decode drops the range check in front of the table lookup", "a token byte above 'z' or below '+' (out-of-bounds table read)"),
 "C06-B": ("C06", "struct jwt error_msg doubled to 512 bytes while checker/builder keep 256; jwt_copy_error is a plain strcpy", "a header alg string of 241 characters or more ('Invalid ALG: [...]' overflows the checker's message buffer)"),
 "C06-C": ("C06", "GnuTLS ECDSA verify: the DER signature is freed on the success path only", "an ES* token with a well-sized but invalid signature under GnuTLS: 70 bytes leak per token"),
 "C06-D": ("C06", "jwt_strcmp made branch-free with i % len1 / i % len2", "a header alg that is the empty string: division by zero (SIGFPE) in every checker"),
 "C07-A": ("C07", "same change as C06-A", "a JWK member containing a byte outside the table range"),
 "C07-B": ("C07", "jwk_process_one returns NULL for a keys entry that is not a JSON object", "a keys array containing a number/string/null/array entry"),
 "C07-C": ("C07", "pctx_to_pem runs EVP_PKEY_pairwise_check on private keys and frees the key on mismatch -- after item->provider_data was set", "a private JWK whose private half belongs to another key, then freeing the set: EVP_PKEY_free twice"),
 "C07-D": ("C07", "jwks_process passes jansson's error text to jwt_write_error as the FORMAT string when the source is '<buffer>'", "non-JSON input whose failing token holds a % conversion"),
 "C08-A": ("C08", "set_ec_pub_key rejects coordinates longer than degree/8 octets (rounds down for P-521)", "every P-521 key (66-octet coordinates)"),
 "C08-B": ("C08", "crv is copied to item->curve in jwk_process_values for every kty (de-duplication of the EC / OKP importers)", "an RSA or oct JWK that carries a stray crv member"),
 "C08-C": ("C08", "set_ec_pub_key refuses x and y of different octet length", "an EC JWK written with minimal-length integers where exactly one coordinate has a leading zero octet"),
 "C08-D": ("C08", "pctx_to_pem treats a non-empty OpenSSL error queue as a failed PEM write", "a JWK OpenSSL rejects, then any good key on the same thread: imported without error but without PEM"),
 "C09-A": ("C09", "key size compared in octets rounded UP ((bits + 7) / 8) in __check_hmac / __check_key_bits", "an RSA modulus of 2041..2047 bits"),
 "C09-B": ("C09", "_verify_sha_hmac calls sign_sha_hmac directly, bypassing __check_hmac in jwt_sign", "an HS* token verified with an oct key shorter than the hash"),
 "C09-C": ("C09", "RSA key size taken as BN_num_bytes(n) * 8 and OpenSSL's bit count only queried when that is 0", "an RSA modulus of 2041..2047 bits recorded as 2048"),
 "C09-D": ("C09", "__check_key_bits: a PSS pre-check breaks out without writing an error", "verifying a PS512 token with a 1024-bit key (PS384: 768, PS256: 512): any signature accepted"),
 "C10-A": ("C10", "jwt_builder_generate runs jwt_head_setup before AND after the callback", "a keyed builder whose callback downgrades to alg none (typ JWT left behind) or sets its own typ without replace"),
 "C10-B": ("C10", "time claims written through a helper taking the offset as int", "an nbf / exp offset above INT_MAX seconds"),
 "C10-C": ("C10", "generate copies headers/claims with json_copy (shallow) AND jwt_set_int replaces an existing integer in place", "an integer builder claim replaced during generate (iat/nbf/exp by name, or by the callback): the builder's own claim changes"),
 "C10-D": ("C10", "claim on/off logic moved into a helper taking (secs - DISABLE) as int", "a positive offset whose low 32 bits are zero or negative as int (2^31, 2^32, 100 years): success, but the claim is switched off"),
 "C11-A": ("C11", "base64_decode drops the lower half of the range check in front of the table lookup", "a byte >= 0x80 (negative char) in a segment or JWK member: out-of-bounds table read, foreign byte accepted"),
 "C11-B": ("C11", "jwt_base64uri_decode rewritten to decode in 256-character chunks; a failing later chunk is taken for padding", "a text longer than 256 characters whose first foreign byte is at offset >= 256 (partially decoded)"),
 "C11-C": ("C11", "jwt_base64uri_decode copies with memcpy and translates with strpbrk before the buffer is terminated", "a recycled / non-zeroed heap block behind the copied text: read and write outside the decoder's buffer"),
 "C12-A": ("C12", "a failed jwt_set_crypto_ops(_t) falls back to the first compiled-in provider", "an unknown provider name / id while GnuTLS is selected"),
 "C12-B": ("C12", "GnuTLS verify caches the imported public key by jwk_item_t address (thread-local, never invalidated)", "key rotation: verify, jwks_free, load another key that lands on the same address, verify"),
 "C12-C": ("C12", "GnuTLS ECDSA verify computes r.size = s.size = sig_len / 2 (rounds down)", "an ES* token whose signature is a valid r||s plus ONE extra octet: GnuTLS accepts, OpenSSL rejects"),
 "C12-D": ("C12", "same idea as C12-A: a failed jwt_set_crypto_ops() falls back to the first compiled-in provider", "an unknown provider name while GnuTLS is selected"),
 "C13-A": ("C13", "jwt_checker_verify validates the callback's key/alg with jwt_checker_setkey (which stores them) instead of __setkey_check", "a keyless checker whose callback selects a key for one token and leaves the config alone for the next"),
 "C13-B": ("C13", "jwt_builder_generate: callback block ends in 'if (__cmd->error) return NULL' (stale flag)", "a builder with a callback, a failed generate whose error was not cleared, then a generate that should succeed"),
 "C14-A": ("C14", "jwt_checker_verify only resets the flag on success (message not cleared)", "a failure, then a success on the same checker without error_clear: ret 0, flag 0, stale message"),
 "C14-B": ("C14", "jwt_get_int returns JWT_VALUE_ERR_TYPE without storing it in the value (getter de-duplication)", "an INT get of a member that exists with another type, by a caller that reads value.error"),
 "C14-C": ("C14", "same idea as C05-C: jwt_checker_verify copies the error state back only when set and returns the per-call flag", "a failing verify then a succeeding one on the same checker: returns 0 with the flag still 1"),
 "C14-D": ("C14", "jwt_set_json fast path returns EXIST for a taken name without storing it in the value", "a JSON-typed set of an existing name without replace, by a caller that reads value.error"),
 "C15-A": ("C15", "jwt_obj_check (which deletes on replace) runs before the new value is validated", "replace-set of an existing name with malformed / scalar JSON text or a NULL string: INVALID, but the old member is gone"),
 "C15-B": ("C15", "jwt_get_int range-checks against INT_MAX / INT_MIN", "a stored integer beyond 32 bits (exp after 2038): get INT answers TYPE"),
 "C15-C": ("C15", "same idea as C15-A: jwt_obj_check (which deletes on replace) runs before json_loads in jwt_set_json", "a replace-set of an existing name with JSON text that is then refused"),
 "C16-A": ("C16", "jwks_item_get caches the last (item, index) and resumes from it; removals do not adjust the index", "get(i), free(j < i), get(k >= i)"),
 "C16-B": ("C16", "items are linked into the set at allocation (jwks_item_new); the json_deep_copy failure path frees the item without unlinking", "an allocation failure at json_deep_copy while loading a key: dangling node, later double free"),
 "C16-C": ("C16", "jwks_find_bykid remembers its last hit; jwks_item_free_bad does not invalidate it", "find an errored item by kid, jwks_item_free_bad, find again: freed item dereferenced"),
 "C16-D": ("C16", "jwks_process stages items on a local list and splices it in; the splice has no empty-list case", "a document with an empty (or non-array) keys member: a stack node is linked into the keyring"),
 "C17-A": ("C17", "verify snapshots only exp/nbf/iss/sub/aud around the callback and ignores json_object_set_new failures", "a checker with a callback, an expired token, and the allocation that copies exp failing: accepted"),
 "C17-B": ("C17", "shared setter helper decrefs the value again after json_object_set_new failed (jansson already dropped it)", "an allocation failure inside jansson's hashtable insert: double decref"),
 "C17-C": ("C17", "_verify_sha_hmac returns -1 for 'nothing to compare with' and the caller only writes an error for a positive result", "an HS* token with a WRONG signature and the allocation inside jwt_base64uri_encode failing: accepted"),
 "C17-D": ("C17", "jwks_process frees the set and returns NULL when jwk_process_one fails on an allocation", "loading into an existing, caller-owned keyring with an allocation failure: the caller's keyring is freed under it"),
 "C18-A": ("C18", "OpenSSL HMAC result taken from libcrypto's static buffer (md = NULL)", "two threads computing HS* MACs at the same time"),
 "C18-B": ("C18", "GnuTLS verify with a private JWK memoises the derived public key in unsynchronised process-wide state", "two threads verifying with two different private JWKs under GnuTLS"),
 "C18-C": ("C18", "GnuTLS verify temporarily NUL-terminates the first line of the SHARED key's PEM in place to read its label", "two threads verifying with the same keyring item under GnuTLS"),
 "C19-A": ("C19", "only exp/nbf/iss/sub/aud are saved around the callback and put back with json_object_update", "a token lacking iss/sub/aud, a checker requiring it, a callback that adds it"),
 "C19-B": ("C19", "jwt_*_setkey refuses use=enc keys, but the post-callback __setkey_check does not", "a use=enc key selected inside a callback"),
 "C19-C": ("C19", "same idea as C19-A (only the five checked claims are saved around the callback)", "a token lacking a checked claim and a callback that adds it"),
 "C19-D": ("C19", "jwt_header_set keeps jwt->alg in sync with an alg header set through the API", "a callback that rewrites the alg header: the token is judged under the algorithm the callback wrote"),
 "C20-A": ("C20", "jwt-verify reads stdin with getline() and chops the last character unconditionally", "a last token without trailing newline"),
 "C20-B": ("C20", "set_one_bn rejects members with a leading zero octet", "an EC private key whose fixed-width d starts with 0x00 (key2jwk output the library then refuses)"),
 "C20-C": ("C20", "jwt-verify counts a stdin line without newline as 'token too long' (forgets that the last line may end at EOF)", "a last stdin token without trailing newline: never verified, counted as failed"),
 "C20-D": ("C20", "same change as C20-B (chosen independently): set_one_bn rejects members with a leading zero octet", "an EC private key whose fixed-width d starts with 0x00"),
}
NOTES = {
 "C02-A": "The C02 check is silent by design: with no pinned algorithm (config alg none) the pinning clause is not involved; the change is caught under C01 and C03.",
 "C08-A": "First MISSED (INCONCLUSIVE: EC_GROUP_get_degree not modelled, completeness not stated). Caught since the second session by the completeness unit C08.openssl_process_ec.complete (EC_GROUP_get_degree modelled, well-formed lengths up to the field size).",
 "C08-C": "First MISSED (exit 0: completeness of import was not stated). Caught since the completeness unit C08.openssl_process_ec.complete was added (x and y lengths independent).",
 "C10-A": "First reported under C03 only (the clause 'header set up once, for the encoded algorithm' carried the C03 label); the same clause was added under C10.",
 "C11-B": "NOT DECIDED (exit 2): the rewritten decoder has other loops, so the loop contracts no longer apply, and the finite units run out of memory on the 256-byte chunk buffer; a structure-independent bounded unit for 264-character texts was tried and needs more than 12 GB (DESIGN 11c). The seeded defect needs a text longer than 256 characters, which no finite unit here reaches.",
 "C13-B": "First reported under C14 only; a C13 clause was added (a refusal of generate has its cause in this call, not in the error state an earlier call left behind).",
 "C14-B": "First reported under C15 and C04 only (the clause 'return value == stored code' sits in the C15 getter units); those units are now also listed under C14.",
 "C16-B": "NOT DECIDED for the seeded path (exit 2 under C07/C17: jwk_process_one changed its signature, the contract's forward declaration no longer compiles). The first run reported C16 exit 1, but for the wrong reason (the scenario harness calls jwks_item_add, which the change removes); such calls are now classified as an environment gap.",
 "C17-B": "First MISSED: the model's json_decref did not notice a reference count being touched after release. json_incref/json_decref now assert liveness (generated header); caught since -- and the same assertion exhibited the genuine defect F18 in jwt_set_json, which the seed's author had copied the idiom from.",
 "C19-B": "Reported under C02 (setkey deviates from the documented admission table); the C19 check itself is silent: the callback's choice is still subject to the table the contract states.",
 "C20-A": "NOT DECIDED (exit 2): token bytes read from stdin are not modelled by the tool environment, and the loop contract's frame names the fixed-size buffer the change replaces.",
 "C20-B": "First MISSED under C20/C08/C07; caught since the completeness unit C08.openssl_process_ec.complete was added (a d with a leading zero octet is a well-formed member).",
 "C10-C": "First NOT DECIDED (json_copy / json_integer_set were outside the modelled environment). Both are modelled now: the TOP unit's clause 'two deep copies, of the builder's headers and claims' refutes the shallow copy. The C13 and C15 checks are silent (each half is harmless alone; the sharing is not visible in the one-member JSON model).",
 "C16-C": "First MISSED: no scenario looked a kid up around jwks_item_free_bad. The free_bad scenario now does (before and after).",
 "C16-D": "NOT DECIDED (exit 2): jwks_process is restructured around a local staging list; its loop contract no longer describes the loop and the unit times out. The bounded C16 scenarios do not load documents.",
 "C17-C": "First reported under C01 only; the verify chain (jwt_verify_sig, _verify_sha_hmac, jwt_sign, jwt_verify_complete) is now also listed under C17.",
 "C17-D": "First NOT DECIDED (the added jwks_free walks the ring: time-out). jwks_free is now replaced by a recording contract in the jwks_process unit and the contract says the set handed in is never released.",
 "C07-C": "First NOT DECIDED (EVP_PKEY_CTX_new_from_pkey / EVP_PKEY_pairwise_check outside the model). Modelled now, and the importers' contracts say that an item reporting an error owns no key object.",
 "C07-D": "Caught by the snprintf model's assertion that a format string is not run-time data.",
 "C20-C": "First NOT DECIDED (both units timed out on the new drain loop). Unknown loops of the function under verification now get a default bound; the bounded stdin unit (thorough tier) refutes 'every supplied token verified => exit status 0'.",
 "C05-C": "Reported under C14 and C13 (TOP verify clauses); the C05 check itself is silent (round trip is stated per call).",
 "C05-D": "Reported under C10 (as C10-B / C05-B).",
 "C04-D": "Reported under C06 (the flag handed to json_loads is part of jwt_base64uri_decode_to_json's contract, listed under C06; C04's statement names it, its unit list does not include that unit).",
 "C20-D": "Reported under C08 (completeness of import); the C20 check is silent (the tools' units do not import keys).",
 "C02-D": "First MISSED: the tool environment did not look at the algorithm handed to jwt_checker_setkey. It now records the algorithm named with -a (ghost g_user_alg, loop invariant over the option loop) and the setkey stub asserts that this is what is pinned.",
 "C06-C": "Caught by C06.gnutls_verify_sha_pem.release -- a unit written AFTER reading this seed's description and before its first evaluation (the GnuTLS model records the release of the DER signature it hands out; exactly one release on every exit). Without it the change would have been missed: leaks are not decided in general.",
 "C02-C": "Caught by C02 (the TOP unit's admission clause); the C19 check is silent for the same reason as C19-B.",
 "C09-D": "Reported under C09 and C01; the C14 list does not contain __check_key_bits' own unit (its clause 'a refusal carries a message' sits in the C09/C01 contracts).",
 "C03-C": "First NOT DECIDED (the change calls strrchr, which the libc model lacked: time-out in cbmc's built-in loop). A loop-free model of the searching functions was added; the C03 / C01 clause 'the signature judged is the text right after the second dot' refutes the change.",
 "C11-C": "NOT DECIDED: first because strpbrk was not modelled; with the model the loop contract of the rewritten function no longer applies, and the defect itself (scanning a buffer that is not yet terminated) is a read of uninitialised heap bytes, which cbmc's checks do not flag.",
 "C18-C": "First NOT DECIDED (strchr / strstr on a PEM of symbolic length: time-out). With the loop-free models the write into the shared key's PEM violates the frame clause of the provider entry.",
 "C08-D": "Caught by the completeness unit: ERR_peek_error was modelled (queue possibly non-empty) after reading this seed's description and before its evaluation.",
 "C05-B": "Reported under C10 (time-claim clauses carry the C10 label); the C05 check itself is silent.",
 "C06-B": "Reported under C14 (message handling clauses).",
 "C18-A": "Caught through the argument obligation of the HMAC model (a NULL output buffer is libcrypto's static buffer) and the frame of the provider entry.",
 "C18-B": "Caught through the frame clause of the provider entry (process-wide state is written); no schedule is explored.",
 "C12-B": "Caught through the frame clause of gnutls_verify_sha_pem (a thread-local cache is state outside the per-call objects).",
}
rows = []
for k in sorted(D):
    d = os.path.join(S, k)
    if not os.path.isdir(d):
        continue
    prop, what, needs = D[k]
    res = open(os.path.join(d, "result.txt")).read() if os.path.exists(os.path.join(d, "result.txt")) else ""
    props_run = open(os.path.join(d, "props.txt")).read().split() if os.path.exists(os.path.join(d, "props.txt")) else []
    # a result file may hold a first evaluation and a re-evaluation with strengthened checks: the last one counts,
    # the first one is reported next to it
    parts = re.split(r"^# --- re-evaluation.*$", res, flags=re.M)
    first = dict(re.findall(r"^== (C\d\d) exit=(\d+)", parts[0], re.M)) if len(parts) > 1 else None
    if len(parts) > 1:
        res = parts[-1]
    per = dict(re.findall(r"^== (C\d\d) exit=(\d+)", res, re.M))
    evaluated_at = re.findall(r"^# evaluated with (.*)$", res, re.M)
    viol = re.findall(r"^VIOLATION property=(C\d\d) replay=\S*?/(C\d\d_[^\s]+?)\.json", res, re.M)
    failed = re.findall(r"^\s+FAILED (\S+)\s+(.*?)\s+@", res, re.M)
    caught_by = sorted(p for p in per if per[p] == "1")
    meta = {"seed": k, "property": prop, "change": what, "needs_to_manifest": needs,
            "applied_with": "bin/seedtest_wt.sh %s %s   (scratch worktree of /repo HEAD; git apply seeded/%s/patch.diff; VERIF_REPO=<worktree> bin/check <prop> --no-evidence; worktree removed) -- equivalent to bin/seedtest.sh seeded/%s/patch.diff <props> on /repo itself" % (k, " ".join(props_run), k, k),
            "confirmed_by_me": (open(os.path.join(d, "confirm.txt")).read().strip().split("\n") if os.path.exists(os.path.join(d, "confirm.txt")) else "first session: patch applied in a scratch worktree, full ctest suite green, demonstration failed with and passed without the patch"),
            "checks_run": props_run, "exit_codes": per,
            "caught": bool(caught_by), "caught_by_properties": caught_by,
            "failed_obligations": ["%s: %s" % (a, b) for a, b in failed][:8],
            "tests": "the author's run: full ctest suite green with the patch (10/10 executables, 101 cases); demonstration passes on the clean tree and fails on the patched one",
            "evaluated": evaluated_at[-1] if evaluated_at else "first session",
            "note": NOTES.get(k, "")}
    if "DOES-NOT-APPLY" in res:
        meta["note"] = "patch no longer applies to the current tree; " + meta["note"]
    json.dump(meta, open(os.path.join(d, "meta.json"), "w"), indent=1)
    ob = failed[0][0] if failed else ""
    status = ("caught: " + ", ".join("%s(exit %s)" % (p, per.get(p, "?")) for p in props_run if per.get(p) == "1")) if caught_by else \
             ("not decided (exit 2)" if "2" in per.values() else "MISSED (exit 0)")
    if first is not None:
        f1 = sorted(p for p in first if first[p] == "1")
        status += "; first evaluation: " + (("caught by " + ", ".join(f1)) if f1 else ("not decided (exit 2)" if "2" in first.values() else ("MISSED (exit 0)" if first else "MISSED / not decided")))
        meta["first_evaluation_exit_codes"] = first
        json.dump(meta, open(os.path.join(d, "meta.json"), "w"), indent=1)
    rows.append("| %s | %s | %s | %s | %s |" % (k, what, " ".join(props_run), status, ob))
tbl = "| seed | change | checks run | outcome (exit 1 = VIOLATION reported) | first failed obligation |\n|---|---|---|---|---|\n" + "\n".join(rows)
open(os.path.join(S, "TABLE.md"), "w").write(tbl + "\n")
print(tbl)
