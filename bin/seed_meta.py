#!/usr/bin/env python3
"""Writes seeded/<id>-<L>/meta.json from result.txt and the table for DESIGN.md section 9."""
import json, os, re, sys
S = os.path.join(os.path.dirname(os.path.dirname(os.path.abspath(__file__))), "seeded")
D = {
 "C01-A": ("C01", "__verify_config_post: the 'config->key' term is dropped from the empty-signature test", "a checker that holds a key (alg not pinned) and a token with alg none and an empty signature"),
 "C01-B": ("C01", "jwt_strcmp runs a fixed 64 rounds instead of the longer length", "two strings that agree on their first 64 characters and have equal length bits, e.g. HS384/HS512 signatures differing only after position 64"),
 "C02-A": ("C02", "same change as C01-A (chosen independently by the C02 agent)", "as C01-A"),
 "C02-B": ("C02", "jwt_checker_verify skips the post-callback __setkey_check when the callback left the key unchanged", "a callback that changes only config->alg"),
 "C03-A": ("C03", "same change as C01-A (chosen independently by the C03 agent)", "as C01-A"),
 "C03-B": ("C03", "jwt_str_alg compares names with strcasecmp", "a header alg spelled 'NONE', 'None', 'hs256', ..."),
 "C04-A": ("C04", "jwt_checker_time_leeway(.., 0) no longer re-enables a disabled check", "leeway set to -1 and later to 0 for the same claim"),
 "C04-B": ("C04", "claim checks are skipped for unsigned tokens", "an alg none token with an expired exp / wrong iss on a keyless checker"),
 "C05-A": ("C05", "openssl_verify_sha_pem rejects RSA signatures whose length differs from bits/8 (rounds down)", "an RSA key whose modulus length is not a multiple of 8 bits"),
 "C05-B": ("C05", "time claims are written through a helper taking int (narrowing)", "a clock value or offset beyond 2^31"),
 "C06-A": ("C06", "base64_decode drops the range check in front of the table lookup", "a token byte above 'z' or below '+' (out-of-bounds table read)"),
 "C06-B": ("C06", "struct jwt error_msg doubled to 512 bytes while checker/builder keep 256; jwt_copy_error is a plain strcpy", "a header alg string of 241 characters or more ('Invalid ALG: [...]' overflows the checker's message buffer)"),
 "C07-A": ("C07", "same change as C06-A", "a JWK member containing a byte outside the table range"),
 "C07-B": ("C07", "jwk_process_one returns NULL for a keys entry that is not a JSON object", "a keys array containing a number/string/null/array entry"),
 "C08-A": ("C08", "set_ec_pub_key rejects coordinates longer than degree/8 octets (rounds down for P-521)", "every P-521 key (66-octet coordinates)"),
 "C08-B": ("C08", "crv is copied to item->curve in jwk_process_values for every kty", "an RSA or oct JWK that carries a stray crv member"),
 "C09-A": ("C09", "RSA key size taken from the byte length of the modulus member", "an RSA JWK whose n has leading zero octets / non-multiple-of-8 size"),
 "C09-B": ("C09", "_verify_sha_hmac calls sign_sha_hmac directly, bypassing the key-length check in jwt_sign", "an HMAC key shorter than the hash on the verify side"),
 "C10-A": ("C10", "jwt_builder_time_offset: offset 0 no longer disables nbf/exp", "time_offset(claim, 0)"),
 "C10-B": ("C10", "replace flag hoisted into the declaration, wiped by jwt_set_SET_INT", "a builder claim named iat/nbf/exp together with the enabled library claim"),
 "C11-A": ("C11", "jwt_base64uri_decode: the reject of len % 4 == 1 becomes dead code (z > 3)", "base64url text whose length is 1 modulo 4 (partially decoded instead of rejected)"),
 "C11-B": ("C11", "base64_decode masks the table index instead of range-checking it", "bytes >= 0x80 alias valid alphabet characters"),
 "C12-A": ("C12", "OpenSSL ECDSA verify: '!=' became '>' in the r||s length check", "a too-short r||s signature"),
 "C12-B": ("C12", "a failed jwt_set_crypto_ops() resets the provider to the default", "an unknown provider name while GnuTLS is selected"),
 "C13-A": ("C13", "verify() stores the callback's key selection in the checker", "a callback that selects a key, followed by another verify"),
 "C13-B": ("C13", "jwt_copy_error only copies when the source carries an error", "a failed call followed by a successful one"),
 "C13-C": ("C13", "generate() stores the callback's key selection in the builder (setkey instead of __setkey_check)", "a builder callback selecting a key"),
 "C14-A": ("C14", "jwt_builder_generate copies the error state back only when encoding failed", "a failed generate followed by a successful one on the same builder: the stale error stays set"),
 "C14-B": ("C14", "array payload rejected without flag or message", "a token whose payload decodes to a JSON array"),
 "C15-A": ("C15", "jwt_set_json: jwt_obj_check (which deletes on replace) moved in front of json_loads", "a replace-set of an existing name with malformed / scalar / empty JSON text: refused, but the old member is already gone"),
 "C15-B": ("C15", "whole-object replace uses json_object_update_recursive", "stored member and incoming member are both JSON objects: the result is their union"),
 "C16-A": ("C16", "jwks_item_free_bad returns jwks_error_any()", "a set whose own error flag is set"),
 "C16-B": ("C16", "jwks_find_bykid compares only strlen(kid) bytes (prefix match)", "two kids where one is a prefix of the other"),
 "C17-A": ("C17", "*_new calls *_free on the half-built object and then returns it", "an allocation failure of one of the two JSON containers"),
 "C17-B": ("C17", "jwt_ec_d2i releases the ECDSA_SIG twice on the allocation-failure path", "jwt_malloc failing in jwt_ec_d2i"),
 "C18-A": ("C18", "OpenSSL HMAC result taken from libcrypto's static buffer (md = NULL)", "two threads computing HS* MACs at the same time"),
 "C18-B": ("C18", "jwks_find_bykid moves the hit to the front of the shared keyring", "two threads looking up kids in one keyring"),
 "C19-A": ("C19", "only the registered claims are snapshotted around the callback", "a callback that changes a claim the checker compares but the snapshot omits, or adds claims"),
 "C19-B": ("C19", "same idea as C02-B (post-callback admission skipped)", "a callback that changes only config->alg"),
 "C20-A": ("C20", "jwt-verify reads stdin with getline() and chops the last character", "a last token without trailing newline"),
 "C20-B": ("C20", "__setkey_check enforces key_ops (sign / verify)", "a private key converted by key2jwk (key_ops: [sign]) given to jwt-verify"),
}
NOTES = {
 "C02-A": "The C02 check is silent by design: with no pinned algorithm (config alg none) the pinning clause is not involved; the change is caught under C01 and C03.",
 "C08-A": "MISSED. The unit is INCONCLUSIVE (exit 2): the change calls EC_GROUP_get_degree, which the unit's OpenSSL environment does not model, and even with a model the violated clause is completeness of import (well-formed key must import), which the one-tracked-member JSON model cannot state (DESIGN 6 C08).",
 "C20-A": "MISSED (INCONCLUSIVE, exit 2): token bytes read from stdin are not modelled by the tool environment; the loop contract's frame no longer fits the changed buffer and the unit gives no verdict.",
 "C19-B": "Reported under C02 (the admission clause carries the C02 label); the C19 check itself is silent.",
 "C05-B": "Reported under C10 (time-claim clauses carry the C10 label); the C05 check itself is silent.",
 "C06-B": "Reported under C14 (message handling clauses).",
 "C18-A": "Caught through the frame/argument obligations of the provider entry.",
}
rows = []
for k in sorted(D):
    d = os.path.join(S, k)
    if not os.path.isdir(d):
        continue
    prop, what, needs = D[k]
    res = open(os.path.join(d, "result.txt")).read() if os.path.exists(os.path.join(d, "result.txt")) else ""
    props_run = open(os.path.join(d, "props.txt")).read().split() if os.path.exists(os.path.join(d, "props.txt")) else []
    per = dict(re.findall(r"^== (C\d\d) exit=(\d+)", res, re.M))
    viol = re.findall(r"^VIOLATION property=(C\d\d) replay=\S*?/(C\d\d_[^\s]+?)\.json", res, re.M)
    failed = re.findall(r"^\s+FAILED (\S+)\s+(.*?)\s+@", res, re.M)
    caught_by = sorted(p for p in per if per[p] == "1")
    meta = {"seed": k, "property": prop, "change": what, "needs_to_manifest": needs,
            "applied_with": "bin/seedtest.sh seeded/%s/patch.diff %s   (git -C /repo apply; bin/check <prop> --no-evidence; git -C /repo checkout -- .)" % (k, " ".join(props_run)),
            "checks_run": props_run, "exit_codes": per,
            "caught": bool(caught_by), "caught_by_properties": caught_by,
            "failed_obligations": ["%s: %s" % (a, b) for a, b in failed][:8],
            "tests": "the author's run: full ctest suite green with the patch (10/10 executables, 101 cases); demonstration passes on the clean tree and fails on the patched one",
            "note": NOTES.get(k, "")}
    if "DOES-NOT-APPLY" in res:
        meta["note"] = "patch no longer applies to the current tree; " + meta["note"]
    json.dump(meta, open(os.path.join(d, "meta.json"), "w"), indent=1)
    ob = failed[0][0] if failed else ""
    status = ("caught: " + ", ".join("%s(exit %s)" % (p, per.get(p, "?")) for p in props_run if per.get(p) == "1")) if caught_by else \
             ("not decided (exit 2)" if "2" in per.values() else "MISSED (exit 0)")
    rows.append("| %s | %s | %s | %s | %s |" % (k, what, " ".join(props_run), status, ob))
tbl = "| seed | change | checks run | outcome | first failed obligation |\n|---|---|---|---|---|\n" + "\n".join(rows)
open(os.path.join(S, "TABLE.md"), "w").write(tbl + "\n")
print(tbl)
