#include <jwt.h>
#include <stdio.h>
#include <stdlib.h>
int main(int argc,char**argv){ char tok[512]; FILE*f=fopen("tok.txt","r"); fgets(tok,sizeof tok,f);
 jwk_set_t *ks=jwks_create_fromfile(argv[1]); const jwk_item_t *k=jwks_item_get(ks,0);
 jwt_checker_t *c=jwt_checker_new(); int r=jwt_checker_setkey(c, JWT_ALG_HS256, k); printf("setkey=%d (%s) key alg=%d\n",r,jwt_checker_error_msg(c), jwks_item_alg(k));
 r=jwt_checker_verify(c,tok); printf("verify=%d msg=%s\n",r,jwt_checker_error_msg(c)); return r==0; }
