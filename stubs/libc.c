/* stubs/libc.c -- ASSUMED models of the C library functions libjwt calls.
 * These are part of the trusted base (DESIGN.md section 5).  They are written
 * as loop-free bodies so that DFCC frame-checks every write they make against
 * the caller's assigns clause, and so that their memory preconditions are
 * CHECKED (asserts), not assumed.
 *
 * Strings: a "C string at s" is assumed to be NUL-terminated inside its
 * object (verif_strlen picks the terminator nondeterministically and assumes
 * it is the first NUL through a ghost index).  Every harness establishes this
 * for its inputs.
 */
#include <stddef.h>
#include <stdint.h>

size_t nondet_size_t(void);
int nondet_int(void);
char nondet_char(void);

/* Ghost index used for "for all k" facts about strings (DESIGN L4). It is
 * chosen nondeterministically once per harness run; facts are established
 * for this arbitrary index, hence for all. */
size_t g_str_k;

#define ROOM(p) (__CPROVER_OBJECT_SIZE(p) - __CPROVER_POINTER_OFFSET(p))

size_t g_last_strlen;	/* ghost: result of the most recent strlen() */
const char *g_last_strlen_arg;	/* ... and its argument (-DVERIF_STRLEN_RECORD_ARG) */
#ifndef VERIF_NO_STRLEN
static size_t verif_strlen_impl(const char *s, _Bool record);
size_t strlen(const char *s) { return verif_strlen_impl(s, 1); }
/* (the searching functions below measure with record == 0: they must not disturb the ghosts that remember what the
 * CODE measured) */
static size_t verif_strlen_impl(const char *s, _Bool record)
{
	__CPROVER_assert(s != NULL, "strlen: non-NULL argument");
	size_t n = nondet_size_t();
	__CPROVER_assume(g_str_k <= ((size_t)1 << 60));	/* ghost index fits ptrdiff_t */
	__CPROVER_assume(n < ROOM(s) && n <= ((size_t)1 << 60));
	__CPROVER_assume(s[n] == 0);
#ifdef VERIF_STRLEN_HINT
	/* the harness states where the first NUL of ONE designated string is (an assumption about
	 * that input: it ranges over the strings whose length is g_strlen_hint_n) */
	{
		extern const char *g_strlen_hint_s; extern size_t g_strlen_hint_n;
		if (s == g_strlen_hint_s)
			__CPROVER_assume(n == g_strlen_hint_n);
	}
#endif
	/* first NUL: no earlier NUL at position 0 or at the ghost index */
	__CPROVER_assume(n == 0 || s[0] != 0);
	__CPROVER_assume(!(g_str_k < n) || s[g_str_k] != 0);
	/* ... nor among the first 8 characters (exact reasoning about short names) */
	__CPROVER_assume(n <= 1 || s[1] != 0);
	__CPROVER_assume(n <= 2 || s[2] != 0);
	__CPROVER_assume(n <= 3 || s[3] != 0);
	__CPROVER_assume(n <= 4 || s[4] != 0);
	__CPROVER_assume(n <= 5 || s[5] != 0);
	__CPROVER_assume(n <= 6 || s[6] != 0);
	__CPROVER_assume(n <= 7 || s[7] != 0);
	/* ... nor at offset 255 (libjwt's error buffers are 256 bytes and keep a NUL
	 * in their last byte: strlen of such a buffer is at most 255) */
	__CPROVER_assume(n <= 255 || s[255] != 0);
#ifdef VERIF_STRLEN_RECORD
	if (record) g_last_strlen = n;
#endif
#ifdef VERIF_STRLEN_RECORD_ARG
	if (record) g_last_strlen_arg = s;
#endif
	(void)record;
	return n;
}
#define VERIF_QUIET_STRLEN(s) verif_strlen_impl((s), 0)
#else
#define VERIF_QUIET_STRLEN(s) strlen(s)
#endif /* VERIF_NO_STRLEN */

/* snprintf shim: see prelude.h.  Writes a NUL-terminated, non-empty string
 * (every libjwt format has a literal character) of fewer than size bytes. */
int verif_snprintf(char *buf, size_t size, const char *fmt)
{
	__CPROVER_assert(buf != NULL && fmt != NULL, "snprintf: non-NULL arguments");
	/* format strings are program constants (string literals, static tables) -- never run-time data handed in by a caller or
	 * a library (units describe such data as fresh, i.e. dynamic, objects): a '%' in it would be interpreted */
	__CPROVER_assert(!__CPROVER_DYNAMIC_OBJECT(fmt), "snprintf: the format string is not run-time data");
	__CPROVER_assert(size <= ROOM(buf), "snprintf: size within destination");
	if (size == 0)
		return nondet_int();
	__CPROVER_havoc_slice(buf, size);
	buf[size - 1] = 0;
	if (size > 1 && fmt[0] != 0)
		__CPROVER_assume(buf[0] != 0);
	else
		buf[0] = 0;
	int r = nondet_int();
	__CPROVER_assume(r >= 0);
	return r;
}

#ifdef VERIF_NO_STRCPY
/* strcpy is provided by the unit (stubs/encode_env.c) */
#elif defined(VERIF_STRCPY_ERRBUF)
/* strcpy as used by jwt_copy_error(): both arguments are 256-byte error
 * buffers whose last byte is NUL (checked).  The whole destination buffer is
 * havocked (constant size -- a symbolic-size havoc of a struct member costs
 * ~15M clauses in cbmc 6.11), the first byte, the terminator and the ghost
 * index are then set exactly; bytes behind the terminator are left arbitrary
 * (an over-approximation: nothing in libjwt reads them). */
char *strcpy(char *dst, const char *src)
{
	__CPROVER_assert(dst != NULL && src != NULL, "strcpy: non-NULL arguments");
	__CPROVER_assert(ROOM(src) >= 256 && src[255] == 0, "strcpy(errbuf): source is a terminated 256-byte error buffer");
	__CPROVER_assert(ROOM(dst) >= 256, "strcpy(errbuf): destination is a 256-byte error buffer");
	size_t n = strlen(src);	/* <= 255 */
	char c0 = src[0];
	__CPROVER_havoc_slice(dst, 256);
	dst[255] = 0;
	dst[0] = c0;
	if (n > 0 && n < 255)
		__CPROVER_assume(dst[n] == 0);
	return dst;
}
#elif defined(VERIF_STRCPY_MEASURED)
/* strcpy of a string whose length the caller has just measured (len = strlen(src);
 * buf = malloc(len + 1); strcpy(buf, src)): the copy has the MEASURED length (strlen is a
 * function of the unchanged string; the generic model above would pick a terminator afresh). */
char *strcpy(char *dst, const char *src)
{
	__CPROVER_assert(dst != NULL && src != NULL, "strcpy: non-NULL arguments");
	__CPROVER_assert(g_last_strlen_arg == src, "strcpy(measured): the source is the string measured by the preceding strlen()");
	size_t n = g_last_strlen;
	__CPROVER_assert(n < ROOM(dst), "strcpy: destination large enough for the string and its terminator");
	dst[n] = 0;
	if (n > 0)
		dst[0] = src[0];
	return dst;
}
#else
char *strcpy(char *dst, const char *src)
{
	__CPROVER_assert(dst != NULL, "strcpy: non-NULL destination");
	size_t n = strlen(src);
	__CPROVER_assert(n < ROOM(dst), "strcpy: destination large enough");
	char c0 = src[0];
	char ck = (g_str_k < n) ? src[g_str_k] : 0;
	__CPROVER_havoc_slice(dst, n + 1);
	dst[n] = 0;
	if (n > 0) {
		dst[0] = c0;
		if (g_str_k < n)
			dst[g_str_k] = ck;
	}
	return dst;
}
#endif

/* Searching functions (libjwt itself uses none of them; a change may): the model does not search -- "found at SOME position
 * holding the character" or "not found" are both possible, which over-approximates every outcome.  Loop-free, so a unit
 * whose function starts calling them is still decided instead of timing out in cbmc's built-in loops. */
_Bool nondet_bool(void);
char *strchr(const char *s, int c)
{
	size_t n = VERIF_QUIET_STRLEN(s);
	if ((char)c == 0)
		return (char *)s + n;
	if (nondet_bool())
		return NULL;
	size_t k = nondet_size_t();
	__CPROVER_assume(k < n && s[k] == (char)c);
	return (char *)s + k;
}
char *strrchr(const char *s, int c)
{
	size_t n = VERIF_QUIET_STRLEN(s);
	if ((char)c == 0)
		return (char *)s + n;
	if (nondet_bool())
		return NULL;
	size_t k = nondet_size_t();
	__CPROVER_assume(k < n && s[k] == (char)c);
	return (char *)s + k;
}
char *strstr(const char *hay, const char *needle)
{
	size_t n = VERIF_QUIET_STRLEN(hay);
	(void)VERIF_QUIET_STRLEN(needle);
	if (nondet_bool())
		return NULL;
	size_t k = nondet_size_t();
	__CPROVER_assume(k <= n);
	return (char *)hay + k;
}
char *strpbrk(const char *s, const char *accept)
{
	size_t n = VERIF_QUIET_STRLEN(s);
	(void)VERIF_QUIET_STRLEN(accept);
	if (nondet_bool())
		return NULL;
	size_t k = nondet_size_t();
	__CPROVER_assume(k < n);
	return (char *)s + k;
}

/* strcmp: the call whose FIRST argument is g_strcmp_watch is recorded in ghost
 * state (which strings were compared and what the answer was), so that
 * postconditions can say "the verdict is strcmp()==0 on exactly these two". */
const char *g_strcmp_watch, *g_strcmp_b;
int g_strcmp_ret;
unsigned g_strcmp_hits;

int strcmp(const char *a, const char *b)
{
	size_t la = strlen(a);
	size_t lb = strlen(b);
	int r = nondet_int();
	/* equal => same length and same byte at 0 and at the ghost index;
	 * a difference at 0, at the ghost index or in length => non-zero */
	if (la != lb || a[0] != b[0] ||
	    (g_str_k < la && a[g_str_k] != b[g_str_k]))
		__CPROVER_assume(r != 0);
	if (a == g_strcmp_watch && a != NULL) {
		g_strcmp_b = b;
		g_strcmp_ret = r;
		g_strcmp_hits++;
	}
	return r;
}
