/* openssl_jwk.c -- ASSUMED model of the OpenSSL functions used by
 * libjwt/openssl/jwk-parse.c (trusted base).  Every call may fail.  The
 * parameter builder records, for every push, the OSSL parameter NAME and where
 * the pushed bytes came from, so that contracts can state which JWK member was
 * handed to OpenSSL under which parameter name (property C08) and what kind of
 * key was requested.  That EVP_PKEY_fromdata / PEM_write_bio_* denote the same
 * key is assumed. */
#include <stdlib.h>
#include <string.h>
#include <openssl/evp.h>
#include <openssl/bn.h>
#include <openssl/ec.h>
#include <openssl/bio.h>
#include <openssl/pem.h>
#include <openssl/param_build.h>
#include <openssl/core_names.h>
#include <openssl/objects.h>
#include "openssl_model.h"

_Bool nondet_bool(void);
int nondet_int(void);
size_t nondet_size_t(void);
long nondet_long(void);
extern int g_lib_fail;
extern int g_wf_bad;	/* ghost: OpenSSL REFUSED well-typed input (inconsistent key, unknown curve, point off the curve, PEM not written) */
extern int g_ec_degree;	/* ghost: field size in bits of the curve of the EC_GROUP handed out */

/* ghosts (defined in stubs/ghost.c, documented in contracts/jwk_parse_c.h) */
extern const void *g_jwk_tracked_bin; extern const char *g_push_name_of_tracked; extern unsigned g_push_count;
extern const char *g_pkey_type_name; extern int g_fromdata_selection; extern size_t g_ossl_bits; extern int g_pem_private;
extern const char *g_ec_point_curve; extern const void *g_ec_point_x, *g_ec_point_y;

struct ossl_param_bld_st { int n; };
struct bio_st { int dummy; };
struct ec_group_st { int nid; };
struct ec_point_st { const void *x, *y; };

OSSL_PARAM_BLD *OSSL_PARAM_BLD_new(void)
{
	if (nondet_bool()) { g_lib_fail = 1; return NULL; }
	OSSL_PARAM_BLD *b = malloc(sizeof(*b));
	__CPROVER_assume(b != NULL);
	b->n = 0;
	return b;
}
void OSSL_PARAM_BLD_free(OSSL_PARAM_BLD *bld) { (void)bld; }
static void note_push(const char *key, const void *src)
{
	g_push_count++;
	if (src != NULL && src == g_jwk_tracked_bin)
		g_push_name_of_tracked = key;
}
int OSSL_PARAM_BLD_push_BN(OSSL_PARAM_BLD *bld, const char *key, const BIGNUM *bn)
{
	__CPROVER_assert(bld != NULL && key != NULL && bn != NULL, "OSSL_PARAM_BLD_push_BN: builder, name and value given");
	note_push(key, bn->src);
	return nondet_bool() ? 1 : 0;
}
int OSSL_PARAM_BLD_push_octet_string(OSSL_PARAM_BLD *bld, const char *key, const void *buf, size_t bsize)
{
	__CPROVER_assert(bld != NULL && key != NULL, "OSSL_PARAM_BLD_push_octet_string: builder and name given");
	__CPROVER_assert(buf == NULL || bsize == 0 || __CPROVER_r_ok(buf, bsize), "OSSL_PARAM_BLD_push_octet_string: buffer readable for bsize bytes");
	note_push(key, buf);
	return nondet_bool() ? 1 : 0;
}
int OSSL_PARAM_BLD_push_utf8_string(OSSL_PARAM_BLD *bld, const char *key, const char *buf, size_t bsize)
{
	__CPROVER_assert(bld != NULL && key != NULL && buf != NULL, "OSSL_PARAM_BLD_push_utf8_string: builder, name and string given");
	g_push_count++;
	return nondet_bool() ? 1 : 0;
}
OSSL_PARAM *OSSL_PARAM_BLD_to_param(OSSL_PARAM_BLD *bld)
{
	__CPROVER_assert(bld != NULL, "OSSL_PARAM_BLD_to_param: builder given");
	if (nondet_bool()) { g_lib_fail = 1; return NULL; }
	OSSL_PARAM *p = malloc(sizeof(*p));
	__CPROVER_assume(p != NULL);
	return p;
}
void OSSL_PARAM_free(OSSL_PARAM *p) { (void)p; }

EVP_PKEY_CTX *EVP_PKEY_CTX_new_from_name(OSSL_LIB_CTX *libctx, const char *name, const char *propquery)
{
	__CPROVER_assert(name != NULL, "EVP_PKEY_CTX_new_from_name: a key type name");
	g_pkey_type_name = name;
	if (nondet_bool()) { g_lib_fail = 1; return NULL; }
	EVP_PKEY_CTX *c = malloc(sizeof(*c));
	__CPROVER_assume(c != NULL);
	c->pkey = NULL; c->padding = 0; c->saltlen = 0;
	return c;
}
void EVP_PKEY_CTX_free(EVP_PKEY_CTX *ctx) { (void)ctx; }
int EVP_PKEY_fromdata_init(EVP_PKEY_CTX *ctx)
{
	__CPROVER_assert(ctx != NULL, "EVP_PKEY_fromdata_init: a context");
	if (nondet_bool()) { g_lib_fail = 1; return nondet_bool() ? 0 : -1; }
	return 1;
}
int EVP_PKEY_fromdata(EVP_PKEY_CTX *ctx, EVP_PKEY **ppkey, int selection, OSSL_PARAM param[])
{
	__CPROVER_assert(ctx != NULL && ppkey != NULL && param != NULL, "EVP_PKEY_fromdata: context, result and parameters given");
	g_fromdata_selection = selection;
	if (nondet_bool()) {	/* inconsistent key material: OpenSSL refuses */
		g_wf_bad = 1;
		return nondet_bool() ? 0 : -1;
	}
	EVP_PKEY *k = malloc(sizeof(*k));
	__CPROVER_assume(k != NULL);
	k->id = nondet_int();
	*ppkey = k;
	return 1;
}
void EVP_PKEY_free(EVP_PKEY *pkey) { (void)pkey; }
/* key consistency checks a hardened importer may run on the object it has just built */
EVP_PKEY_CTX *EVP_PKEY_CTX_new_from_pkey(OSSL_LIB_CTX *libctx, EVP_PKEY *pkey, const char *propquery)
{
	__CPROVER_assert(pkey != NULL, "EVP_PKEY_CTX_new_from_pkey: a key");
	if (nondet_bool()) { g_lib_fail = 1; return NULL; }
	EVP_PKEY_CTX *c = malloc(sizeof(*c));
	__CPROVER_assume(c != NULL);
	c->pkey = pkey; c->padding = 0; c->saltlen = 0;
	return c;
}
/* the per-thread error queue: libjwt never clears it, so it may hold entries of EARLIER, unrelated calls */
unsigned long ERR_peek_error(void) { return nondet_bool() ? 0UL : 1UL; }
unsigned long ERR_get_error(void) { return nondet_bool() ? 0UL : 1UL; }
unsigned long ERR_peek_last_error(void) { return nondet_bool() ? 0UL : 1UL; }
void ERR_clear_error(void) { }
static int key_check(EVP_PKEY_CTX *ctx)
{
	__CPROVER_assert(ctx != NULL, "EVP_PKEY_*_check: a context");
	if (nondet_bool()) { g_wf_bad = 1; return nondet_bool() ? 0 : -1; }	/* the material is inconsistent */
	return 1;
}
int EVP_PKEY_pairwise_check(EVP_PKEY_CTX *ctx) { return key_check(ctx); }
int EVP_PKEY_check(EVP_PKEY_CTX *ctx) { return key_check(ctx); }
int EVP_PKEY_public_check(EVP_PKEY_CTX *ctx) { return key_check(ctx); }
int EVP_PKEY_private_check(EVP_PKEY_CTX *ctx) { return key_check(ctx); }
int EVP_PKEY_get_size_t_param(const EVP_PKEY *pkey, const char *key_name, size_t *out)
{
	__CPROVER_assert(pkey != NULL && key_name != NULL && out != NULL, "EVP_PKEY_get_size_t_param: key, name and result given");
	*out = g_ossl_bits;
	return 1;
}

const BIO_METHOD *BIO_s_mem(void) { return NULL; }
BIO *BIO_new(const BIO_METHOD *type)
{
	if (nondet_bool()) { g_lib_fail = 1; return NULL; }
	BIO *b = malloc(sizeof(*b));
	__CPROVER_assume(b != NULL);
	return b;
}
int PEM_write_bio_PrivateKey(BIO *out, const EVP_PKEY *x, const EVP_CIPHER *enc, const unsigned char *kstr, int klen, pem_password_cb *cb, void *u)
{
	__CPROVER_assert(out != NULL && x != NULL, "PEM_write_bio_PrivateKey: bio and key given");
	g_pem_private = 1;
	if (nondet_bool()) { g_wf_bad = 1; return 0; }
	return 1;
}
int PEM_write_bio_PUBKEY(BIO *out, const EVP_PKEY *x)
{
	__CPROVER_assert(out != NULL && x != NULL, "PEM_write_bio_PUBKEY: bio and key given");
	g_pem_private = 0;
	if (nondet_bool()) { g_wf_bad = 1; return 0; }
	return 1;
}
long BIO_ctrl(BIO *bp, int cmd, long larg, void *parg)
{
	/* BIO_get_mem_data: a buffer of the returned length */
	__CPROVER_assert(bp != NULL && parg != NULL, "BIO_get_mem_data: bio and result pointer given");
	long n = nondet_long();
	__CPROVER_assume(n >= 0 && n <= 0x100000);
	char *d = malloc((size_t)n + 1);
	__CPROVER_assume(d != NULL);
	*(char **)parg = d;
	return n;
}
void *CRYPTO_malloc(size_t num, const char *file, int line)
{
	if (nondet_bool()) { g_lib_fail = 1; return NULL; }
	void *p = malloc(num);
	__CPROVER_assume(p != NULL);
	return p;
}
void CRYPTO_free(void *ptr, const char *file, int line) { (void)ptr; }

int OBJ_sn2nid(const char *s)
{
	__CPROVER_assert(s != NULL, "OBJ_sn2nid: a name");
	g_ec_point_curve = s;
	return nondet_int();
}
EC_GROUP *EC_GROUP_new_by_curve_name(int nid)
{
	if (nondet_bool()) { g_wf_bad = 1; return NULL; }	/* unknown curve */
	EC_GROUP *g = malloc(sizeof(*g));
	__CPROVER_assume(g != NULL);
	g->nid = nid;
	return g;
}
void EC_GROUP_free(EC_GROUP *group) { (void)group; }
int EC_GROUP_get_degree(const EC_GROUP *group)
{
	__CPROVER_assert(group != NULL, "EC_GROUP_get_degree: a group");
	return g_ec_degree;
}
EC_POINT *EC_POINT_new(const EC_GROUP *group)
{
	__CPROVER_assert(group != NULL, "EC_POINT_new: a group");
	if (nondet_bool()) { g_lib_fail = 1; return NULL; }
	EC_POINT *p = malloc(sizeof(*p));
	__CPROVER_assume(p != NULL);
	p->x = NULL; p->y = NULL;
	return p;
}
void EC_POINT_free(EC_POINT *point) { (void)point; }
int EC_POINT_set_affine_coordinates(const EC_GROUP *group, EC_POINT *p, const BIGNUM *x, const BIGNUM *y, BN_CTX *ctx)
{
	__CPROVER_assert(group != NULL && p != NULL && x != NULL && y != NULL, "EC_POINT_set_affine_coordinates: group, point, x and y given");
	p->x = x->src; p->y = y->src;
	g_ec_point_x = x->src; g_ec_point_y = y->src;
	if (nondet_bool()) { g_wf_bad = 1; return 0; }	/* 0: the point is not on the curve */
	return 1;
}
size_t EC_POINT_point2buf(const EC_GROUP *group, const EC_POINT *point, point_conversion_form_t form, unsigned char **pbuf, BN_CTX *ctx)
{
	__CPROVER_assert(group != NULL && point != NULL && pbuf != NULL, "EC_POINT_point2buf: group, point and result given");
	if (nondet_bool()) { g_lib_fail = 1; return 0; }
	size_t n = nondet_size_t();
	__CPROVER_assume(n >= 1 && n <= 200);
	unsigned char *b = malloc(n);
	__CPROVER_assume(b != NULL);
	*pbuf = b;
	return n;
}
