/* time.c -- assumed model of time(): returns the ghost clock g_now (fixed for
 * the duration of one call under verification). */
#include <time.h>
extern time_t g_now;
time_t time(time_t *t) { if (t) *t = g_now; return g_now; }
