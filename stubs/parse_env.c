/* parse_env.c -- memcpy for the jwt_parse unit.  ASSUMED libc contract, modelled for the
 * ghost index: after memcpy(dst, src, n) the byte at the arbitrary index g_str_k (< n) and
 * the last byte agree with the source; all other destination bytes keep whatever the fresh
 * allocation held (unconstrained in CBMC), which over-approximates every possible content. */
#include <stddef.h>
extern size_t g_str_k;
void *memcpy(void *dst, const void *src, size_t n)
{
	__CPROVER_assert(n == 0 || (__CPROVER_w_ok(dst, n) && __CPROVER_r_ok(src, n)), "memcpy: both ranges valid for n bytes");
	if (n > 0) {
		((char *)dst)[n - 1] = ((const char *)src)[n - 1];
		if (g_str_k < n)
			((char *)dst)[g_str_k] = ((const char *)src)[g_str_k];
	}
	return dst;
}
