/* key2jwk_env.c -- environment of process_ec_key()/get_one_bn() (tools/key2jwk.c):
 * ASSUMED contracts of the OpenSSL, jansson and libjwt calls they make.  A BIGNUM is
 * modelled by its minimal byte length only (any value below 2^bits, so any length from 0
 * to ceil(bits/8): short values are what the property is about). */
#include <stdlib.h>
#include <string.h>
#include <openssl/evp.h>
#include <openssl/bn.h>
#include <openssl/core_names.h>
#include <jansson.h>
#include <jwt.h>
_Bool nondet_bool(void); int nondet_int(void); size_t nondet_size_t(void); unsigned nondet_uint(void);
#define ROOM(p) (__CPROVER_OBJECT_SIZE(p) - __CPROVER_POINTER_OFFSET(p))

size_t g_ec_bits; _Bool g_ec_bits_set; unsigned g_set_calls; char g_set_name[8]; int g_set_len[8]; int g_enc_last_len;

struct bignum_st { int nbytes; };

int EVP_PKEY_get_size_t_param(const EVP_PKEY *pkey, const char *key_name, size_t *out)
{
	/* one key: the same answer on every call (the unit requires g_ec_bits_set == 0 on entry) */
	if (!g_ec_bits_set) {
		size_t b = nondet_size_t();
		__CPROVER_assume(b <= 1024);
		g_ec_bits = b;
		g_ec_bits_set = 1;
	}
	*out = g_ec_bits;
	return 1;
}
int EVP_PKEY_get_group_name(const EVP_PKEY *pkey, char *name, size_t name_sz, size_t *gname_len)
{
	__CPROVER_assert(name_sz >= 1 && __CPROVER_w_ok(name, name_sz), "EVP_PKEY_get_group_name: buffer writable");
	name[name_sz - 1] = 0;
	return 1;
}
int EVP_PKEY_get_bn_param(const EVP_PKEY *pkey, const char *key_name, BIGNUM **bn)
{
	BIGNUM *b = malloc(sizeof(*b));
	__CPROVER_assume(b != NULL);
	int n = nondet_int();
	__CPROVER_assume(n >= 0 && (size_t)n <= (g_ec_bits + 7) / 8);
	b->nbytes = n;
	*bn = b;
	return 1;
}
int BN_num_bits(const BIGNUM *a) { return a->nbytes * 8; }
int BN_bn2bin(const BIGNUM *a, unsigned char *to)
{
	__CPROVER_assert(a->nbytes == 0 || __CPROVER_w_ok(to, (size_t)a->nbytes), "BN_bn2bin: destination holds BN_num_bytes() octets");
	return a->nbytes;
}
int BN_bn2binpad(const BIGNUM *a, unsigned char *to, int tolen)
{
	if (tolen < a->nbytes)
		return -1;
	__CPROVER_assert(tolen == 0 || __CPROVER_w_ok(to, (size_t)tolen), "BN_bn2binpad: destination holds tolen octets");
	return tolen;
}
void BN_free(BIGNUM *a) { free(a); }
void *CRYPTO_malloc(size_t num, const char *file, int line) { void *p = malloc(num); __CPROVER_assume(p != NULL); return p; }
void CRYPTO_free(void *p, const char *file, int line) { free(p); }

int jwt_base64uri_encode(char **_dst, const char *plain, int plain_len)
{
	__CPROVER_assert(plain_len >= 0 && (plain_len == 0 || __CPROVER_r_ok(plain, (size_t)plain_len)), "jwt_base64uri_encode: source readable for plain_len octets");
	g_enc_last_len = plain_len;
	char *s = malloc(2);
	__CPROVER_assume(s != NULL);
	s[0] = 'A'; s[1] = 0;
	*_dst = s;
	return 1;
}
void __jwt_freemem(void *p) { free(p); }
json_t *json_string(const char *v) { return (json_t *)v; }	/* opaque, never dereferenced */
int json_object_set_new(json_t *obj, const char *key, json_t *val)
{
	if (g_set_calls < 8) {
		g_set_name[g_set_calls] = key[0];
		g_set_len[g_set_calls] = g_enc_last_len;
	}
	g_enc_last_len = -1;
	g_set_calls++;
	return 0;
}
int strcmp(const char *a, const char *b) { return nondet_int(); }
char *strcpy(char *dst, const char *src)
{
	__CPROVER_assert(ROOM(dst) >= ROOM(src), "strcpy: destination at least as large as the literal copied into it");
	dst[0] = src[0];
	return dst;
}
