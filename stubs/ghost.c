/* ghost.c -- definitions of the ghost variables declared in contracts/*.h */
#include <jwt.h>
#include "jwt-private.h"
#include <time.h>
/* primitive records (contracts/ops.h) */
const void *g_mac_key; size_t g_mac_keylen; const void *g_mac_data; size_t g_mac_len; int g_mac_hash; const void *g_mac_out;
const void *g_ver_keymat; const void *g_ver_data; size_t g_ver_len; int g_ver_hash; int g_ver_pss; int g_ver_family;
const void *g_ver_sig; size_t g_ver_siglen; const void *g_ver_raw_r, *g_ver_raw_s; size_t g_ver_raw_n; int g_ver_valid;
const void *g_sgn_keymat; const void *g_sgn_data; size_t g_sgn_len; int g_sgn_hash, g_sgn_pss; int g_sgn_done;
#ifndef VERIF_NO_JWT_OPS_DEF
struct jwt_crypto_ops *jwt_ops;
#endif
size_t g_vj_len_a, g_vj_len_b, g_vj_len_c, g_vj_len_d;
/* the clock (time() model) */
time_t g_now;
/* callback record (contract_cb_checker / contract_cb_builder) */
int g_cb_called, g_cb_ret; const jwk_item_t *g_cb_key; jwt_alg_t g_cb_alg;
jwk_item_t *g_cb_pool_key; json_t *g_cb_pool_node;
size_t g_b64_g;
/* DER ghosts of the OpenSSL model (contracts/openssl_model.h) */
const void *g_der_buf; const struct ECDSA_SIG_st *g_der_sig;
int g_lib_fail; unsigned g_ver_calls;
const void *g_rs_buf, *g_rs_r, *g_rs_s; size_t g_rs_rn, g_rs_sn; unsigned g_rs_freed;
const char *g_jwk_tracked_str;
const char *g_dec_last_src; const void *g_dec_last_res; int g_dec_last_len;
/* JWK import ghosts (contracts/jwk_parse_c.h) */
const void *g_jwk_tracked_bin;		/* decoding of the tracked JWK member's text (set by the abstract jwt_base64uri_decode) */
const char *g_push_name_of_tracked;	/* OSSL parameter name that value was pushed under (NULL: not pushed) */
unsigned g_push_count; const char *g_pkey_type_name; int g_fromdata_selection; size_t g_ossl_bits; int g_pem_private;
const char *g_ec_point_curve; const void *g_ec_point_x, *g_ec_point_y;

/* jwt_parse unit: record of the jwt_parse_head / jwt_parse_payload calls */
unsigned g_ph_calls, g_pp_calls; int g_ph_ret, g_pp_ret; const char *g_ph_arg, *g_pp_arg;

/* jwt_encode_str unit: what jwt_encode returned and stored */
char *g_enc_out; int g_enc_rc;

/* jwt_header_* / jwt_claim_* wrapper units: which doer ran, on which object, with which argument, with what answer */
int g_doer_kind, g_doer_ret; const struct json_t *g_doer_which; const void *g_doer_arg;

/* jwks_process unit: sequence records for the arbitrary position g_seq_k */
unsigned g_p1_calls, g_add_calls, g_seq_k; const struct json_t *g_p1_arg_k; const struct jwk_item *g_p1_ret_k, *g_add_item_k;

/* loader units: the jwks_process call */
unsigned g_pr_calls; const struct jwk_set *g_pr_set; const struct json_t *g_pr_json;

/* jwks_load / jwks_create* wrapper units: the loader call */
unsigned g_ls_calls; const struct jwk_set *g_ls_set; const void *g_ls_src; size_t g_ls_len; int g_ls_empty; struct jwk_set *g_ls_ret;

/* jwt_checker_claim_set unit: what the setter was asked to store */
int g_set_type, g_set_replace; const char *g_set_name, *g_set_str;

/* completeness units of the JWK importers (C08): refusal record, well-formedness parameters */
int g_wf_bad, g_wf_private, g_wf_maxlen, g_ec_degree;

/* C16 __item_free unit: the two neighbours of the node (assigned by the harness) */
#include "ll.h"
ll_t *g_nb_prev, *g_nb_next;

/* strlen hint (stubs/libc.c, -DVERIF_STRLEN_HINT): the length of one designated input string */
const char *g_strlen_hint_s; size_t g_strlen_hint_n;

/* jwks_process unit: calls of jwks_free (there must be none) */
unsigned g_setfree_calls;
