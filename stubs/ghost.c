/* ghost.c -- definitions of the ghost variables declared in contracts/ops.h */
#include <jwt.h>
#include "jwt-private.h"
#include <time.h>
unsigned g_op_hmac_calls; const jwk_item_t *g_op_hmac_key; jwt_alg_t g_op_hmac_alg; const char *g_op_hmac_data; unsigned int g_op_hmac_len;
unsigned g_op_sign_calls; const jwk_item_t *g_op_sign_key; jwt_alg_t g_op_sign_alg; const char *g_op_sign_data; unsigned int g_op_sign_len;
unsigned g_op_verify_calls; const jwk_item_t *g_op_verify_key; jwt_alg_t g_op_verify_alg; const char *g_op_verify_data; unsigned int g_op_verify_len;
const unsigned char *g_op_verify_sig; int g_op_verify_siglen; int g_op_verify_ret;
struct jwt_crypto_ops *jwt_ops;
size_t g_vj_len_a, g_vj_len_b, g_vj_len_c, g_vj_len_d;
/* the clock (time() model) */
time_t g_now;
jwt_claims_t g_vc_ret;
