/* b64_shape.c -- ABSTRACT BODIES of jwt_base64uri_decode / jwt_base64uri_encode:
 * the most general implementation of contract_shape_jwt_base64uri_decode /
 * contract_shape_jwt_base64uri_encode (contracts/jwt_c.h) -- every value the
 * postcondition allows is produced nondeterministically.  Used instead of
 * --replace-call-with-contract in units whose function frees or writes the
 * returned buffer: cbmc 6.11 is ~100x slower on objects created by is_fresh in
 * a replaced contract's ensures than on objects created by malloc in a body
 * (measured: 30 s vs 0.3 s).  The REAL functions are proved against the same
 * shape (and stronger) contracts by the C11 units. */
#include <stdlib.h>
_Bool nondet_bool(void);
int nondet_int(void);
#define B64_MAXLEN 0x5ffffffd
/* units may bound the decoded length they consider (a stated bound, e.g. oct keys of at most 16 MiB) */
#ifndef B64_DEC_MAX
#define B64_DEC_MAX B64_MAXLEN
#endif
#ifdef VERIF_B64_TRACK
extern const char *g_jwk_tracked_str; extern const void *g_jwk_tracked_bin;
extern const char *g_dec_last_src; extern const void *g_dec_last_res; extern int g_dec_last_len;
#endif

void *jwt_base64uri_decode(const char *src, int *ret_len)
{
	__CPROVER_assert(src == NULL || __CPROVER_r_ok(src, 1), "jwt_base64uri_decode: src is NULL or readable");
	__CPROVER_assert(ret_len == NULL || __CPROVER_w_ok(ret_len, sizeof(*ret_len)), "jwt_base64uri_decode: ret_len NULL or writable");
	if (src == NULL || ret_len == NULL)
		return NULL;
#ifdef VERIF_WELLFORMED
	/* COMPLETENESS units: the text is well-formed base64url of 1..g_wf_maxlen octets; the only
	 * failure left is the allocation of the result, which is recorded */
	extern int g_lib_fail, g_wf_maxlen;
	if (nondet_bool()) { g_lib_fail = 1; return NULL; }
	int n = nondet_int();
	__CPROVER_assume(n >= 1 && n <= g_wf_maxlen && n <= B64_DEC_MAX);
#else
	if (nondet_bool()) {
		if (nondet_bool())
			*ret_len = nondet_int();
		return NULL;
	}
	int n = nondet_int();
	__CPROVER_assume(n >= 1 && n <= B64_DEC_MAX);
#endif
	void *p = malloc((size_t)n + 1);
	__CPROVER_assume(p != NULL);
	*ret_len = n;
#ifdef VERIF_B64_TRACK
	/* ghost: remember the decoding of the tracked JWK member's text, and the last decoding */
	if (src == g_jwk_tracked_str)
		g_jwk_tracked_bin = p;
	g_dec_last_src = src; g_dec_last_res = p; g_dec_last_len = n;
#endif
	return p;
}

int jwt_base64uri_encode(char **_dst, const char *plain, int plain_len)
{
	__CPROVER_assert(__CPROVER_w_ok(_dst, sizeof(*_dst)), "jwt_base64uri_encode: _dst writable");
	__CPROVER_assert(plain_len >= 0 && plain_len <= B64_MAXLEN, "jwt_base64uri_encode: length in range");
	__CPROVER_assert(plain_len == 0 || __CPROVER_r_ok(plain, plain_len), "jwt_base64uri_encode: plain readable for plain_len bytes");
	if (nondet_bool())
		return -1;
	int r = nondet_int();
	__CPROVER_assume(r >= 0 && r <= 4 * ((plain_len + 2) / 3));
	__CPROVER_assume((r == 0) == (plain_len == 0));
	char *d = malloc((size_t)r + 1);
	__CPROVER_assume(d != NULL);
	d[r] = 0;
	*_dst = d;
	return r;
}
