/* head_env.c -- ABSTRACT BODY of jwt_header_set() for the jwt_head_setup unit
 * (libjwt/jwt-encode.c): records what it is asked to store, and answers with anything
 * contract_C15___setter allows (the real jwt_header_set -> __run_it -> __setter is
 * verified by the C15 units): a NULL string value is INVALID, an existing name
 * without replace is EXIST, allocation may fail. */
#include <stdlib.h>
#include <jwt.h>
#include "jwt-private.h"
_Bool nondet_bool(void);
int nondet_int(void);

#include "spec.h"
/* ABSTRACT BODY of jwt_alg_str() (the real one is verified against contract_C05_jwt_alg_str by unit
 * C10.jwt_alg_str): the RFC name of a known algorithm, in a static buffer; NULL otherwise */
char g_alg_name[8];
const char *jwt_alg_str(jwt_alg_t alg)
{
	if (!SPEC_ALG_KNOWN(alg))
		return NULL;
	g_alg_name[7] = 0;
	__CPROVER_assume(SPEC_NAME_IS(g_alg_name, alg));
	return g_alg_name;
}

unsigned g_hset_calls; const char *g_hset_name[2]; const char *g_hset_val[2]; int g_hset_replace[2], g_hset_ret[2], g_hset_type[2];

jwt_value_error_t jwt_header_set(jwt_t *jwt, jwt_value_t *value)
{
	__CPROVER_assert(__CPROVER_rw_ok(jwt, sizeof(*jwt)) && __CPROVER_rw_ok(value, sizeof(*value)), "jwt_header_set: arguments valid");
	__CPROVER_assert(value->name != NULL, "jwt_header_set: a member name is given");
	unsigned k = g_hset_calls;
	jwt_value_error_t r;
	if (value->type == JWT_VALUE_STR && value->str_val == NULL)
		r = JWT_VALUE_ERR_INVALID;
	else if (jwt->headers == NULL)
		r = JWT_VALUE_ERR_INVALID;
	else if (nondet_bool())
		r = JWT_VALUE_ERR_NONE;
	else if (!value->replace && nondet_bool())
		r = JWT_VALUE_ERR_EXIST;
	else
		r = nondet_bool() ? JWT_VALUE_ERR_NOMEM : JWT_VALUE_ERR_INVALID;
	value->error = r;
	if (k < 2) {
		g_hset_name[k] = value->name; g_hset_val[k] = value->str_val; g_hset_replace[k] = value->replace;
		g_hset_ret[k] = (int)r; g_hset_type[k] = (int)value->type;
	}
	g_hset_calls = k + 1;
	return r;
}
