/* openssl.c -- ASSUMED model of the OpenSSL functions used by
 * libjwt/openssl/sign-verify.c (trusted base, DESIGN.md section 5).
 * Every call may fail; the USAGE PROTOCOL is encoded as checked assertions
 * (buffers readable/writable for the stated lengths, contexts initialised
 * before use); the decisive primitives record in ghost state (contracts/ops.h)
 * what they were asked to judge.  That "valid" means cryptographically valid
 * is assumed. */
#include <stdlib.h>
#include <string.h>
#include <openssl/evp.h>
#include <openssl/hmac.h>
#include <openssl/rsa.h>
#include <openssl/bio.h>
#include "openssl_model.h"
#include <jwt.h>

_Bool nondet_bool(void);
int nondet_int(void);
size_t nondet_size_t(void);

extern const void *g_mac_key; extern size_t g_mac_keylen; extern const void *g_mac_data; extern size_t g_mac_len; extern int g_mac_hash; extern const void *g_mac_out;
extern const void *g_ver_keymat; extern const void *g_ver_data; extern size_t g_ver_len; extern int g_ver_hash, g_ver_pss, g_ver_family;
extern const void *g_ver_sig; extern size_t g_ver_siglen; extern const void *g_ver_raw_r, *g_ver_raw_s; extern size_t g_ver_raw_n; extern int g_ver_valid;
extern const void *g_sgn_keymat; extern const void *g_sgn_data; extern size_t g_sgn_len; extern int g_sgn_hash, g_sgn_pss, g_sgn_done;
extern const void *g_der_buf; extern const ECDSA_SIG *g_der_sig;
extern int g_lib_fail;		/* ghost: the model injected a library failure (allocation, init, ...) */
extern unsigned g_ver_calls;	/* ghost: number of EVP_DigestVerify calls */

/* (DFCC makes every static arbitrary on entry: digest descriptors are allocated per call) */
static const EVP_MD *mk_md(int bits)
{
	struct evp_md_st *m = malloc(sizeof(*m));
	__CPROVER_assume(m != NULL);
	m->bits = bits;
	return m;
}
const EVP_MD *EVP_sha256(void) { return mk_md(256); }
const EVP_MD *EVP_sha384(void) { return mk_md(384); }
const EVP_MD *EVP_sha512(void) { return mk_md(512); }
const EVP_MD *EVP_md_null(void) { return mk_md(0); }

static int family_of(int id)
{
	if (id == EVP_PKEY_RSA || id == EVP_PKEY_RSA_PSS) return JWK_KEY_TYPE_RSA;
	if (id == EVP_PKEY_EC) return JWK_KEY_TYPE_EC;
	if (id == EVP_PKEY_ED25519 || id == EVP_PKEY_ED448) return JWK_KEY_TYPE_OKP;
	return JWK_KEY_TYPE_NONE;
}

int EVP_PKEY_get_id(const EVP_PKEY *pkey)
{
	__CPROVER_assert(pkey != NULL && __CPROVER_r_ok(pkey, sizeof(*pkey)), "EVP_PKEY_id: a valid EVP_PKEY");
	return pkey->id;
}

unsigned char *HMAC(const EVP_MD *evp_md, const void *key, int key_len, const unsigned char *data, size_t data_len,
		    unsigned char *md, unsigned int *md_len)
{
	__CPROVER_assert(evp_md != NULL && evp_md->bits != 0, "HMAC: a real digest");
	__CPROVER_assert(key_len >= 0 && (key_len == 0 || __CPROVER_r_ok(key, key_len)), "HMAC: key readable for key_len bytes");
	__CPROVER_assert(data_len == 0 || __CPROVER_r_ok(data, data_len), "HMAC: data readable for data_len bytes");
	__CPROVER_assert(md != NULL && __CPROVER_w_ok(md, evp_md->bits / 8), "HMAC: output buffer takes the digest (a NULL md would be OpenSSL's static buffer)");
	if (nondet_bool()) {
		g_lib_fail = 1;
		return NULL;
	}
	__CPROVER_havoc_slice(md, 64);
	if (md_len) *md_len = (unsigned int)(evp_md->bits / 8);
	g_mac_key = key; g_mac_keylen = (size_t)key_len; g_mac_data = data; g_mac_len = data_len; g_mac_hash = evp_md->bits; g_mac_out = md;
	return md;
}

/* ---- message digest contexts ---- */
EVP_MD_CTX *EVP_MD_CTX_new(void)
{
	if (nondet_bool()) { g_lib_fail = 1; return NULL; }
	EVP_MD_CTX *c = malloc(sizeof(*c));
	__CPROVER_assume(c != NULL);
	c->md = NULL; c->pkey = NULL; c->pctx = NULL; c->mode = 0; c->maxsig = 0;
	return c;
}
void EVP_MD_CTX_free(EVP_MD_CTX *ctx) { (void)ctx; }
int BIO_free(BIO *a) { (void)a; return 1; }

static int digest_init(EVP_MD_CTX *ctx, EVP_PKEY_CTX **pctx, const EVP_MD *type, EVP_PKEY *pkey, int mode)
{
	__CPROVER_assert(ctx != NULL && __CPROVER_rw_ok(ctx, sizeof(*ctx)), "EVP_Digest*Init: a valid context");
	__CPROVER_assert(pkey != NULL && __CPROVER_r_ok(pkey, sizeof(*pkey)), "EVP_Digest*Init: a valid key");
	if (nondet_bool()) {
		g_lib_fail = 1;
		return nondet_bool() ? 0 : -1;
	}
	EVP_PKEY_CTX *p = malloc(sizeof(*p));
	__CPROVER_assume(p != NULL);
	p->pkey = pkey; p->padding = 0; p->saltlen = 0;
	ctx->md = type; ctx->pkey = pkey; ctx->pctx = p; ctx->mode = mode;
	ctx->maxsig = nondet_size_t();
	__CPROVER_assume(ctx->maxsig >= 1 && ctx->maxsig <= 1024);
	if (pctx) *pctx = p;
	return 1;
}
int EVP_DigestSignInit(EVP_MD_CTX *ctx, EVP_PKEY_CTX **pctx, const EVP_MD *type, ENGINE *e, EVP_PKEY *pkey)
{ (void)e; return digest_init(ctx, pctx, type, pkey, 1); }
int EVP_DigestVerifyInit(EVP_MD_CTX *ctx, EVP_PKEY_CTX **pctx, const EVP_MD *type, ENGINE *e, EVP_PKEY *pkey)
{ (void)e; return digest_init(ctx, pctx, type, pkey, 2); }

int EVP_PKEY_CTX_set_rsa_padding(EVP_PKEY_CTX *ctx, int pad_mode)
{
	__CPROVER_assert(ctx != NULL && __CPROVER_rw_ok(ctx, sizeof(*ctx)), "EVP_PKEY_CTX_set_rsa_padding: a context from Digest*Init");
	if (nondet_bool()) { g_lib_fail = 1; return -1; }
	ctx->padding = pad_mode;
	return 1;
}
int EVP_PKEY_CTX_set_rsa_pss_saltlen(EVP_PKEY_CTX *ctx, int saltlen)
{
	__CPROVER_assert(ctx != NULL && __CPROVER_rw_ok(ctx, sizeof(*ctx)), "EVP_PKEY_CTX_set_rsa_pss_saltlen: a context from Digest*Init");
	if (nondet_bool()) { g_lib_fail = 1; return -1; }
	ctx->saltlen = saltlen;
	return 1;
}

int EVP_DigestSign(EVP_MD_CTX *ctx, unsigned char *sigret, size_t *siglen, const unsigned char *tbs, size_t tbslen)
{
	__CPROVER_assert(ctx != NULL && __CPROVER_r_ok(ctx, sizeof(*ctx)) && ctx->mode == 1, "EVP_DigestSign: context initialised for signing");
	__CPROVER_assert(siglen != NULL, "EVP_DigestSign: siglen given");
	__CPROVER_assert(tbslen == 0 || __CPROVER_r_ok(tbs, tbslen), "EVP_DigestSign: data readable");
	if (nondet_bool())
		return 0;
	if (sigret == NULL) {
		*siglen = ctx->maxsig;
		return 1;
	}
	__CPROVER_assert(*siglen >= ctx->maxsig && __CPROVER_w_ok(sigret, ctx->maxsig), "EVP_DigestSign: buffer as large as the size query said");
	size_t n = nondet_size_t();
	__CPROVER_assume(n >= 1 && n <= ctx->maxsig);
	__CPROVER_havoc_slice(sigret, 1024 < ctx->maxsig ? 1024 : ctx->maxsig);
	*siglen = n;
	g_sgn_keymat = ctx->pkey; g_sgn_data = tbs; g_sgn_len = tbslen; g_sgn_hash = ctx->md ? ctx->md->bits : 0;
	g_sgn_pss = ctx->pctx->padding == RSA_PKCS1_PSS_PADDING && ctx->pctx->saltlen == RSA_PSS_SALTLEN_DIGEST;
	g_sgn_done = 1;
	return 1;
}

int EVP_DigestVerify(EVP_MD_CTX *ctx, const unsigned char *sigret, size_t siglen, const unsigned char *tbs, size_t tbslen)
{
	__CPROVER_assert(ctx != NULL && __CPROVER_r_ok(ctx, sizeof(*ctx)) && ctx->mode == 2, "EVP_DigestVerify: context initialised for verification");
	__CPROVER_assert(siglen == 0 || __CPROVER_r_ok(sigret, siglen), "EVP_DigestVerify: signature readable for siglen bytes");
	__CPROVER_assert(tbslen == 0 || __CPROVER_r_ok(tbs, tbslen), "EVP_DigestVerify: data readable for tbslen bytes");
	int r = nondet_int();
	__CPROVER_assume(r == 1 || r == 0 || r == -1);
	g_ver_calls++;
	g_ver_keymat = ctx->pkey; g_ver_data = tbs; g_ver_len = tbslen; g_ver_hash = ctx->md ? ctx->md->bits : 0;
	g_ver_pss = ctx->pctx->padding == RSA_PKCS1_PSS_PADDING;
	g_ver_family = family_of(ctx->pkey->id);
	g_ver_sig = sigret; g_ver_siglen = siglen;
	g_ver_raw_r = NULL; g_ver_raw_s = NULL; g_ver_raw_n = 0;
	if (sigret == g_der_buf && g_der_sig != NULL && g_der_sig->r != NULL && g_der_sig->s != NULL &&
	    g_der_sig->r->len == g_der_sig->s->len && siglen == (size_t)g_der_sig->derlen) {
		/* the signature judged is the DER encoding of (r, s) built from two raw halves */
		g_ver_raw_r = g_der_sig->r->src; g_ver_raw_s = g_der_sig->s->src; g_ver_raw_n = (size_t)g_der_sig->r->len;
	}
	g_ver_valid = (r == 1);
	return r;
}

/* ---- big numbers and ECDSA signatures ---- */
BIGNUM *BN_bin2bn(const unsigned char *s, int len, BIGNUM *ret)
{
	__CPROVER_assert(len >= 0 && (len == 0 || __CPROVER_r_ok(s, len)), "BN_bin2bn: source readable for len bytes");
	__CPROVER_assert(ret == NULL, "BN_bin2bn: model supports a fresh result only");
	if (nondet_bool()) { g_lib_fail = 1; return NULL; }
	BIGNUM *b = malloc(sizeof(*b));
	__CPROVER_assume(b != NULL);
	b->src = s; b->len = len;
	b->nbytes = nondet_int();
	__CPROVER_assume(b->nbytes >= 0 && b->nbytes <= len);
	return b;
}
void BN_free(BIGNUM *a) { (void)a; }
int BN_num_bits(const BIGNUM *a)
{
	__CPROVER_assert(a != NULL && __CPROVER_r_ok(a, sizeof(*a)), "BN_num_bits: a valid BIGNUM");
	int bits = nondet_int();
	__CPROVER_assume(a->nbytes == 0 ? bits == 0 : (bits > 8 * (a->nbytes - 1) && bits <= 8 * a->nbytes));
	return bits;
}
int BN_bn2bin(const BIGNUM *a, unsigned char *to)
{
	__CPROVER_assert(a != NULL && __CPROVER_r_ok(a, sizeof(*a)), "BN_bn2bin: a valid BIGNUM");
	__CPROVER_assert(a->nbytes == 0 || __CPROVER_w_ok(to, a->nbytes), "BN_bn2bin: destination takes BN_num_bytes bytes");
	if (a->nbytes > 0)
		__CPROVER_havoc_slice(to, a->nbytes);
	return a->nbytes;
}
ECDSA_SIG *ECDSA_SIG_new(void)
{
	if (nondet_bool()) { g_lib_fail = 1; return NULL; }
	ECDSA_SIG *s = malloc(sizeof(*s));
	__CPROVER_assume(s != NULL);
	s->r = NULL; s->s = NULL; s->derlen = 0; s->released = 0;
	return s;
}
/* release is recorded on the object (ghost flag) instead of performed (see DESIGN: free() after
 * writes is intractable under DFCC); a second release or any later use is an error */
void ECDSA_SIG_free(ECDSA_SIG *sig)
{
	if (sig == NULL)
		return;
	__CPROVER_assert(!sig->released, "ECDSA_SIG_free: the object has not been released before (double free)");
	sig->released = 1;
}
int ECDSA_SIG_set0(ECDSA_SIG *sig, BIGNUM *r, BIGNUM *s)
{
	__CPROVER_assert(sig != NULL && r != NULL && s != NULL, "ECDSA_SIG_set0: all arguments given");
	sig->r = r; sig->s = s;
	return 1;
}
void ECDSA_SIG_get0(const ECDSA_SIG *sig, const BIGNUM **pr, const BIGNUM **ps)
{
	__CPROVER_assert(sig != NULL && __CPROVER_r_ok(sig, sizeof(*sig)) && !sig->released, "ECDSA_SIG_get0: a valid, unreleased signature object");
	if (pr) *pr = sig->r;
	if (ps) *ps = sig->s;
}
int i2d_ECDSA_SIG(const ECDSA_SIG *sig, unsigned char **pp)
{
	__CPROVER_assert(sig != NULL && !sig->released && sig->r != NULL && sig->s != NULL, "i2d_ECDSA_SIG: unreleased object with r and s set");
	ECDSA_SIG *m = (ECDSA_SIG *)sig;
	if (m->derlen == 0) {
		int l = nondet_int();
		__CPROVER_assume(l >= 8 && l <= 2 * (sig->r->len + sig->s->len) + 16);
		m->derlen = l;
	}
	if (pp == NULL)
		return m->derlen;
	__CPROVER_assert(*pp != NULL && __CPROVER_w_ok(*pp, m->derlen), "i2d_ECDSA_SIG: output buffer as large as the length query said");
	g_der_buf = *pp; g_der_sig = sig;
	__CPROVER_havoc_slice(*pp, 160 < m->derlen ? 160 : m->derlen);
	*pp += m->derlen;
	return m->derlen;
}
ECDSA_SIG *d2i_ECDSA_SIG(ECDSA_SIG **sig, const unsigned char **pp, long len)
{
	__CPROVER_assert(sig == NULL, "d2i_ECDSA_SIG: model supports a fresh result only");
	__CPROVER_assert(pp != NULL && len >= 0 && (len == 0 || __CPROVER_r_ok(*pp, len)), "d2i_ECDSA_SIG: input readable for len bytes");
	if (nondet_bool()) return NULL;
	ECDSA_SIG *s = malloc(sizeof(*s));
	BIGNUM *r = malloc(sizeof(*r)), *t = malloc(sizeof(*t));
	__CPROVER_assume(s != NULL && r != NULL && t != NULL);
	r->src = NULL; t->src = NULL;
	r->len = r->nbytes = nondet_int(); t->len = t->nbytes = nondet_int();
	/* a DER integer of a signature: any length the encoding allows */
	__CPROVER_assume(r->nbytes >= 0 && r->nbytes <= 128 && t->nbytes >= 0 && t->nbytes <= 128);
	s->r = r; s->s = t; s->derlen = 0; s->released = 0;
	*pp += len;
	return s;
}
