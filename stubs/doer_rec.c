/* doer_rec.c -- ABSTRACT BODIES of __setter / __getter / __deleter (libjwt/jwt-setget.c) for units
 * that verify their CALLERS in jwt-common.c: each records which object, which request and which
 * answer (ghosts g_doer_*, g_set_*) and returns ANY code, storing it in the request as the real
 * doers do (contracts C15___setter/__getter: return value == value->error).  Bodies instead of
 * contract replacement because the callers' postconditions read the NAME the doer was handed
 * ("iss"/"sub"/"aud"): cbmc dereferences through value sets, and a ghost pointer that is havocked
 * and then assumed equal (contract replacement) has none. */
#include <jwt.h>
#include <jansson.h>
int nondet_int(void);
extern int g_doer_kind, g_doer_ret; extern const json_t *g_doer_which; extern const void *g_doer_arg;
extern int g_set_type, g_set_replace; extern const char *g_set_name, *g_set_str;
static jwt_value_error_t any_code(void)
{
	int r = nondet_int();
	__CPROVER_assume(r >= JWT_VALUE_ERR_NONE && r <= JWT_VALUE_ERR_NOMEM);
	return (jwt_value_error_t)r;
}
jwt_value_error_t __setter(json_t *which, jwt_value_t *value)
{
	__CPROVER_assert(value != NULL, "__setter: request present");
	g_doer_kind = 2; g_doer_which = which; g_doer_arg = value;
	g_set_type = (int)value->type; g_set_replace = value->replace; g_set_name = value->name; g_set_str = value->str_val;
	jwt_value_error_t r = any_code();
	value->error = r; g_doer_ret = (int)r;
	return r;
}
jwt_value_error_t __getter(json_t *which, jwt_value_t *value)
{
	__CPROVER_assert(value != NULL, "__getter: request present");
	g_doer_kind = 1; g_doer_which = which; g_doer_arg = value;
	jwt_value_error_t r = any_code();
	value->error = r; g_doer_ret = (int)r;
	return r;
}
jwt_value_error_t __deleter(json_t *which, const char *field)
{
	g_doer_kind = 3; g_doer_which = which; g_doer_arg = field;
	jwt_value_error_t r = any_code();
	g_doer_ret = (int)r;
	return r;
}
