/* memory_env.c -- jansson's allocator hook as seen by jwt_set_alloc (libjwt/jwt-memory.c):
 * records what jansson was told to use (ASSUMED: jansson then allocates through these). */
#include <stddef.h>
void *(*g_json_malloc_fn)(size_t); void (*g_json_free_fn)(void *);
void json_set_alloc_funcs(void *(*malloc_fn)(size_t), void (*free_fn)(void *))
{
	g_json_malloc_fn = malloc_fn;
	g_json_free_fn = free_fn;
}
