/* gnutls.c -- ASSUMED model of the GnuTLS functions used by
 * libjwt/gnutls/sign-verify.c (trusted base).  Same conventions as
 * stubs/openssl.c: every call may fail, the usage protocol is asserted, the
 * decisive primitives record what they judged in the ghosts of contracts/ops.h. */
#include <stdlib.h>
#include <string.h>
#include "gnutls_model.h"
#include <gnutls/crypto.h>
#include <gnutls/x509.h>
#include <jwt.h>

_Bool nondet_bool(void);
int nondet_int(void);
unsigned nondet_uint(void);

extern const void *g_mac_key; extern size_t g_mac_keylen; extern const void *g_mac_data; extern size_t g_mac_len; extern int g_mac_hash; extern const void *g_mac_out;
extern const void *g_ver_keymat; extern const void *g_ver_data; extern size_t g_ver_len; extern int g_ver_hash, g_ver_pss, g_ver_family;
extern const void *g_ver_sig; extern size_t g_ver_siglen; extern const void *g_ver_raw_r, *g_ver_raw_s; extern size_t g_ver_raw_n; extern int g_ver_valid;
extern const void *g_sgn_keymat; extern const void *g_sgn_data; extern size_t g_sgn_len; extern int g_sgn_hash, g_sgn_pss, g_sgn_done;
extern int g_lib_fail; extern unsigned g_ver_calls;

extern unsigned g_rs_freed;	/* ghost (stubs/ghost.c): how often the buffer handed out by the last gnutls_encode_rs_value() was released */
void verif_gnutls_free(void *p) { if (p != NULL && p == g_rs_buf && g_rs_freed < 100) g_rs_freed++; }
gnutls_free_function gnutls_free = verif_gnutls_free;

static int dig_bits(int alg)
{
	return alg == GNUTLS_DIG_SHA256 ? 256 : alg == GNUTLS_DIG_SHA384 ? 384 : alg == GNUTLS_DIG_SHA512 ? 512 : 0;
}
unsigned gnutls_hmac_get_len(gnutls_mac_algorithm_t algorithm)
{
	return (unsigned)dig_bits((int)algorithm) / 8;
}
int gnutls_hmac_fast(gnutls_mac_algorithm_t algorithm, const void *key, size_t keylen, const void *text, size_t textlen, void *digest)
{
	int bits = dig_bits((int)algorithm);
	__CPROVER_assert(bits != 0, "gnutls_hmac_fast: a SHA-2 MAC");
	__CPROVER_assert(keylen == 0 || __CPROVER_r_ok(key, keylen), "gnutls_hmac_fast: key readable for keylen bytes");
	__CPROVER_assert(textlen == 0 || __CPROVER_r_ok(text, textlen), "gnutls_hmac_fast: text readable for textlen bytes");
	__CPROVER_assert(digest != NULL && __CPROVER_w_ok(digest, bits / 8), "gnutls_hmac_fast: output buffer takes the digest");
	if (nondet_bool()) { g_lib_fail = 1; return -1; }
	__CPROVER_havoc_slice(digest, 32);
	g_mac_key = key; g_mac_keylen = keylen; g_mac_data = text; g_mac_len = textlen; g_mac_hash = bits; g_mac_out = digest;
	return 0;
}

static int nondet_pk(void)
{
	int pk = nondet_int();
	__CPROVER_assume(pk == GNUTLS_PK_RSA || pk == GNUTLS_PK_RSA_PSS || pk == GNUTLS_PK_EC || pk == GNUTLS_PK_EDDSA_ED25519 || pk == GNUTLS_PK_EDDSA_ED448);
	return pk;
}
int gnutls_pubkey_init(gnutls_pubkey_t *key)
{
	if (nondet_bool()) { g_lib_fail = 1; return -1; }
	struct gnutls_pubkey_st *k = malloc(sizeof(*k));
	__CPROVER_assume(k != NULL);
	k->pem = NULL; k->pk = 0; k->live = 1;
	*key = k;
	return 0;
}
void gnutls_pubkey_deinit(gnutls_pubkey_t key)
{
	if (key == NULL) return;
	__CPROVER_assert(__CPROVER_rw_ok(key, sizeof(*key)) && key->live == 1, "gnutls_pubkey_deinit: an initialised public key (not garbage, not released twice)");
	key->live = 0;
}
int gnutls_pubkey_import(gnutls_pubkey_t key, const gnutls_datum_t *data, gnutls_x509_crt_fmt_t format)
{
	__CPROVER_assert(key != NULL && __CPROVER_rw_ok(key, sizeof(*key)) && key->live, "gnutls_pubkey_import: initialised key");
	__CPROVER_assert(data->size == 0 || __CPROVER_r_ok(data->data, data->size), "gnutls_pubkey_import: datum readable");
	if (nondet_bool()) return -1;	/* not a public key PEM: the caller then tries the private-key route */
	key->pem = data->data; key->pk = nondet_pk();
	return 0;
}
int gnutls_privkey_init(gnutls_privkey_t *key)
{
	if (nondet_bool()) { g_lib_fail = 1; return -1; }
	struct gnutls_privkey_st *k = malloc(sizeof(*k));
	__CPROVER_assume(k != NULL);
	k->pem = NULL; k->pk = 0; k->live = 1;
	*key = k;
	return 0;
}
void gnutls_privkey_deinit(gnutls_privkey_t key)
{
	if (key == NULL) return;
	__CPROVER_assert(__CPROVER_rw_ok(key, sizeof(*key)) && key->live == 1, "gnutls_privkey_deinit: an initialised private key (not garbage, not released twice)");
	key->live = 0;
}
int gnutls_privkey_import_x509_raw(gnutls_privkey_t pkey, const gnutls_datum_t *data, gnutls_x509_crt_fmt_t format, const char *password, unsigned int flags)
{
	__CPROVER_assert(pkey != NULL && __CPROVER_rw_ok(pkey, sizeof(*pkey)) && pkey->live, "gnutls_privkey_import_x509_raw: initialised key");
	__CPROVER_assert(data->size == 0 || __CPROVER_r_ok(data->data, data->size), "gnutls_privkey_import_x509_raw: datum readable");
	if (nondet_bool()) { g_lib_fail = 1; return -1; }
	pkey->pem = data->data; pkey->pk = nondet_pk();
	return 0;
}
int gnutls_pubkey_import_privkey(gnutls_pubkey_t key, gnutls_privkey_t pkey, unsigned int usage, unsigned int flags)
{
	__CPROVER_assert(key != NULL && key->live && pkey != NULL && pkey->live, "gnutls_pubkey_import_privkey: initialised keys");
	if (nondet_bool()) { g_lib_fail = 1; return -1; }
	key->pem = pkey->pem; key->pk = pkey->pk;
	return 0;
}
int gnutls_pubkey_get_pk_algorithm(gnutls_pubkey_t key, unsigned int *bits)
{
	__CPROVER_assert(key != NULL && key->live, "gnutls_pubkey_get_pk_algorithm: initialised key");
	return key->pk;
}
int gnutls_privkey_get_pk_algorithm(gnutls_privkey_t key, unsigned int *bits)
{
	__CPROVER_assert(key != NULL && key->live, "gnutls_privkey_get_pk_algorithm: initialised key");
	return key->pk;
}

static int sign_bits(int a)
{
	return (a == GNUTLS_SIGN_RSA_SHA256 || a == GNUTLS_SIGN_RSA_PSS_SHA256 || a == GNUTLS_SIGN_ECDSA_SHA256) ? 256 :
	       (a == GNUTLS_SIGN_RSA_SHA384 || a == GNUTLS_SIGN_RSA_PSS_SHA384 || a == GNUTLS_SIGN_ECDSA_SHA384) ? 384 :
	       (a == GNUTLS_SIGN_RSA_SHA512 || a == GNUTLS_SIGN_RSA_PSS_SHA512 || a == GNUTLS_SIGN_ECDSA_SHA512) ? 512 : 0;
}
static int sign_family(int a)
{
	if (a == GNUTLS_SIGN_EDDSA_ED25519 || a == GNUTLS_SIGN_EDDSA_ED448) return JWK_KEY_TYPE_OKP;
	if (a == GNUTLS_SIGN_ECDSA_SHA256 || a == GNUTLS_SIGN_ECDSA_SHA384 || a == GNUTLS_SIGN_ECDSA_SHA512) return JWK_KEY_TYPE_EC;
	return JWK_KEY_TYPE_RSA;
}
int gnutls_pubkey_verify_data2(gnutls_pubkey_t pubkey, gnutls_sign_algorithm_t algo, unsigned int flags, const gnutls_datum_t *data, const gnutls_datum_t *signature)
{
	__CPROVER_assert(pubkey != NULL && pubkey->live, "gnutls_pubkey_verify_data2: initialised key");
	__CPROVER_assert(data->size == 0 || __CPROVER_r_ok(data->data, data->size), "gnutls_pubkey_verify_data2: data readable");
	__CPROVER_assert(signature->size == 0 || __CPROVER_r_ok(signature->data, signature->size), "gnutls_pubkey_verify_data2: signature readable");
	int r = nondet_int();
	g_ver_calls++;
	g_ver_keymat = pubkey->pem; g_ver_data = data->data; g_ver_len = data->size; g_ver_hash = sign_bits((int)algo);
	g_ver_pss = (algo == GNUTLS_SIGN_RSA_PSS_SHA256 || algo == GNUTLS_SIGN_RSA_PSS_SHA384 || algo == GNUTLS_SIGN_RSA_PSS_SHA512);
	g_ver_family = sign_family((int)algo);
	g_ver_sig = signature->data; g_ver_siglen = signature->size;
	g_ver_raw_r = NULL; g_ver_raw_s = NULL; g_ver_raw_n = 0;
	if (signature->data == g_rs_buf && g_rs_buf != NULL && g_rs_rn == g_rs_sn) {
		g_ver_raw_r = g_rs_r; g_ver_raw_s = g_rs_s; g_ver_raw_n = g_rs_rn;
	}
	g_ver_valid = (r >= 0);
	return r;
}
int gnutls_encode_rs_value(gnutls_datum_t *sig_value, const gnutls_datum_t *r, const gnutls_datum_t *s)
{
	__CPROVER_assert(r->size == 0 || __CPROVER_r_ok(r->data, r->size), "gnutls_encode_rs_value: r readable");
	__CPROVER_assert(s->size == 0 || __CPROVER_r_ok(s->data, s->size), "gnutls_encode_rs_value: s readable");
	if (nondet_bool()) { g_lib_fail = 1; return -1; }
	unsigned n = nondet_uint();
	__CPROVER_assume(n >= 8 && n <= 2 * (r->size + s->size) + 16 && n <= 300);
	unsigned char *d = malloc(n);
	__CPROVER_assume(d != NULL);
	sig_value->data = d; sig_value->size = n;
	g_rs_buf = d; g_rs_r = r->data; g_rs_s = s->data; g_rs_rn = r->size; g_rs_sn = s->size;
	return 0;
}
int gnutls_decode_rs_value(const gnutls_datum_t *sig_value, gnutls_datum_t *r, gnutls_datum_t *s)
{
	__CPROVER_assert(sig_value->size == 0 || __CPROVER_r_ok(sig_value->data, sig_value->size), "gnutls_decode_rs_value: signature readable");
	if (nondet_bool()) { g_lib_fail = 1; return -1; }
	/* DER integers: minimal length, possibly with one leading zero byte */
	unsigned rn = nondet_uint(), sn = nondet_uint();
	__CPROVER_assume(rn >= 1 && rn <= 67 && sn >= 1 && sn <= 67);
	r->data = malloc(rn); s->data = malloc(sn);
	__CPROVER_assume(r->data != NULL && s->data != NULL);
	r->size = rn; s->size = sn;
	return 0;
}
int gnutls_privkey_sign_data(gnutls_privkey_t signer, gnutls_digest_algorithm_t hash, unsigned int flags, const gnutls_datum_t *data, gnutls_datum_t *signature)
{
	__CPROVER_assert(signer != NULL && signer->live, "gnutls_privkey_sign_data: initialised key");
	__CPROVER_assert(data->size == 0 || __CPROVER_r_ok(data->data, data->size), "gnutls_privkey_sign_data: data readable");
	if (nondet_bool()) { g_lib_fail = 1; return -1; }
	unsigned n = nondet_uint();
	__CPROVER_assume(n >= 1 && n <= 1024);
	signature->data = malloc(n);
	__CPROVER_assume(signature->data != NULL);
	signature->size = n;
	g_sgn_keymat = signer->pem; g_sgn_data = data->data; g_sgn_len = data->size; g_sgn_hash = dig_bits((int)hash);
	g_sgn_pss = (flags & GNUTLS_PRIVKEY_SIGN_FLAG_RSA_PSS) != 0;
	g_sgn_done = 1;
	return 0;
}
