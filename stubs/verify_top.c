/* verify_top.c -- ABSTRACT BODIES of jwt_new() and jwt_parse() for the unit
 * that verifies jwt_checker_verify (jwt-common.c).  They produce every
 * behaviour their contracts (contract_all_jwt_parse in jwt_verify_c.h, the
 * jwt_new clauses below) allow; the real functions are verified against those
 * contracts by their own units.  Bodies instead of contract replacement for
 * the reason given in stubs/b64_shape.c.
 *
 * jwt_parse additionally records a ghost SNAPSHOT of what it parsed
 * (g_parsed_*): the tracked claim, the header algorithm and the split point.
 * jwt_checker_verify's postconditions are stated over the snapshot, i.e. over
 * "the token as parsed", which is what properties C04/C19 speak about. */
#include <stdlib.h>
#include <string.h>
#include <jwt.h>
#include "jwt-private.h"
#include "jansson_model.h"
#include "spec.h"

_Bool nondet_bool(void);
int nondet_int(void);
unsigned nondet_uint(void);
char nondet_char(void);
long long nondet_longlong(void);
size_t nondet_size_t(void);

/* ghost snapshot */
int g_parse_called, g_parse_ret;
int g_parsed_has, g_parsed_type;	/* tracked claim present? its JSON type */
long long g_parsed_int;			/* its integer value */
const char *g_parsed_str;		/* its string value */
jwt_alg_t g_parsed_alg;			/* header algorithm */
unsigned g_parsed_len;			/* index of the dot that ends the payload */

static json_t *mk_node(json_type t)
{
	json_t *n = malloc(sizeof(*n));
	__CPROVER_assume(n != NULL);
	n->type = t; n->refcount = 1; n->ival = 0; n->sval = NULL; n->tracked = NULL; n->asize = 0;
	return n;
}
static char *mk_string(void)
{
	__CPROVER_assume(g_vj_len_c < 0x1000000);
	char *s = malloc(g_vj_len_c + 1);
	__CPROVER_assume(s != NULL);
	s[g_vj_len_c] = 0;
	return s;
}
static json_t *mk_any(void)
{
	json_type t = (json_type)nondet_int();
	__CPROVER_assume(t >= JSON_OBJECT && t <= JSON_NULL);
	json_t *n = mk_node(t);
	n->ival = nondet_longlong();
	if (t == JSON_STRING)
		n->sval = mk_string();
	return n;
}

jwt_t *jwt_new(void)
{
	if (nondet_bool())
		return NULL;
	jwt_t *jwt = malloc(sizeof(*jwt));
	__CPROVER_assume(jwt != NULL);
	memset(jwt, 0, sizeof(*jwt));
	jwt->claims = mk_node(JSON_OBJECT);
	jwt->headers = mk_node(JSON_OBJECT);
	return jwt;
}

static void set_error(jwt_t *jwt)
{
	/* jwt_write_error: first message wins, flag set */
	if (jwt->error_msg[0] == 0) {
		char c = nondet_char();
		__CPROVER_assume(c != 0);
		jwt->error_msg[0] = c;
		jwt->error_msg[1] = 0;
	}
	jwt->error = 1;
}

int jwt_parse(jwt_t *jwt, const char *token, unsigned int *len)
{
	__CPROVER_assert(__CPROVER_rw_ok(jwt, sizeof(*jwt)), "jwt_parse: jwt object valid");
	__CPROVER_assert(token != NULL, "jwt_parse: token non-NULL");
	__CPROVER_assert(__CPROVER_w_ok(len, sizeof(*len)), "jwt_parse: len writable");
	g_parse_called = 1;
	size_t tl = strlen(token);

	/* failure: no two dots, header or payload not decodable, alg unusable,
	 * allocation failure -- always with the flag and a message (C14) */
	if (nondet_bool()) {
		if (nondet_bool()) {
			json_t *old = jwt->headers;
			jwt->headers = nondet_bool() ? NULL : mk_node(JSON_OBJECT);
			free(old);
		}
		set_error(jwt);
		g_parse_ret = 1;
		return 1;
	}

	/* success */
	json_t *oh = jwt->headers, *oc = jwt->claims;
	json_t *h = mk_node(JSON_OBJECT);
	jwt_alg_t a = (jwt_alg_t)nondet_int();
	__CPROVER_assume(SPEC_ALG_KNOWN(a));
	if (KEY3(g_json_key, 'a', 'l', 'g')) {
		h->tracked = mk_node(JSON_STRING);
		h->tracked->sval = mk_string();
		__CPROVER_assume(g_vj_len_c >= 6);
		__CPROVER_assume(SPEC_NAME_IS(h->tracked->sval, a));
	} else if (nondet_bool()) {
		h->tracked = mk_any();
	}
	json_t *c = mk_node(nondet_bool() ? JSON_OBJECT : JSON_ARRAY);
	if (c->type == JSON_OBJECT && nondet_bool())
		c->tracked = mk_any();
	jwt->headers = h;
	jwt->claims = c;
	jwt->alg = a;
	free(oh);
	free(oc);

	unsigned l = nondet_uint();
	__CPROVER_assume(l >= 1 && l < tl && token[l] == '.');
	*len = l;

	g_parse_ret = 0;
	g_parsed_alg = a;
	g_parsed_len = l;
	g_parsed_has = c->tracked != NULL;
	g_parsed_type = c->tracked ? (int)c->tracked->type : -1;
	g_parsed_int = c->tracked ? c->tracked->ival : 0;
	g_parsed_str = c->tracked ? c->tracked->sval : NULL;
	return 0;
}
