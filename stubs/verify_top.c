/* verify_top.c -- ABSTRACT BODIES of jwt_new() and jwt_parse() for the unit
 * that verifies jwt_checker_verify (jwt-common.c).  They produce every
 * behaviour their contracts (contract_all_jwt_parse in jwt_verify_c.h, the
 * jwt_new clauses below) allow; the real functions are verified against those
 * contracts by their own units.  Bodies instead of contract replacement for
 * the reason given in stubs/b64_shape.c.
 *
 * jwt_parse additionally records a ghost SNAPSHOT of what it parsed
 * (g_parsed_*): the tracked claim, the header algorithm and the split point.
 * jwt_checker_verify's postconditions are stated over the snapshot, i.e. over
 * "the token as parsed", which is what properties C04/C19 speak about. */
#include <stdlib.h>
#include <string.h>
#include <jwt.h>
#include "jwt-private.h"
#include "jansson_model.h"
#include "spec.h"

_Bool nondet_bool(void);
int nondet_int(void);
unsigned nondet_uint(void);
char nondet_char(void);
long long nondet_longlong(void);
size_t nondet_size_t(void);

/* ghost snapshot */
int g_parse_called, g_parse_ret;
int g_parsed_has, g_parsed_type;	/* tracked claim present? its JSON type */
long long g_parsed_int;			/* its integer value */
const char *g_parsed_str;		/* its string value */
jwt_alg_t g_parsed_alg;			/* header algorithm */
unsigned g_parsed_len;			/* index of the dot that ends the payload */

static json_t *mk_node(json_type t)
{
	json_t *n = malloc(sizeof(*n));
	__CPROVER_assume(n != NULL);
	n->type = t; n->refcount = 1; n->ival = 0; n->sval = NULL; n->tracked = NULL; n->asize = 0;
	return n;
}
static char *mk_string(void)
{
	__CPROVER_assume(g_vj_len_c < 0x1000000);
	char *s = malloc(g_vj_len_c + 1);
	__CPROVER_assume(s != NULL);
	s[g_vj_len_c] = 0;
	return s;
}
static json_t *mk_any(void)
{
	json_type t = (json_type)nondet_int();
	__CPROVER_assume(t >= JSON_OBJECT && t <= JSON_NULL);
	json_t *n = mk_node(t);
	n->ival = nondet_longlong();
	if (t == JSON_STRING)
		n->sval = mk_string();
	return n;
}

jwt_t *jwt_new(void)
{
	if (nondet_bool())
		return NULL;
	jwt_t *jwt = malloc(sizeof(*jwt));
	__CPROVER_assume(jwt != NULL);
	memset(jwt, 0, sizeof(*jwt));
	jwt->claims = mk_node(JSON_OBJECT);
	jwt->headers = mk_node(JSON_OBJECT);
	return jwt;
}

static void set_error(jwt_t *jwt)
{
	/* jwt_write_error: first message wins, flag set */
	if (jwt->error_msg[0] == 0) {
		char c = nondet_char();
		__CPROVER_assume(c != 0);
		jwt->error_msg[0] = c;
		jwt->error_msg[1] = 0;
	}
	jwt->error = 1;
}

int jwt_parse(jwt_t *jwt, const char *token, unsigned int *len)
{
	__CPROVER_assert(__CPROVER_rw_ok(jwt, sizeof(*jwt)), "jwt_parse: jwt object valid");
	__CPROVER_assert(token != NULL, "jwt_parse: token non-NULL");
	__CPROVER_assert(__CPROVER_w_ok(len, sizeof(*len)), "jwt_parse: len writable");
	g_parse_called = 1;
	size_t tl = strlen(token);

	/* failure: no two dots, header or payload not decodable, alg unusable,
	 * allocation failure -- always with the flag and a message (C14) */
	if (nondet_bool()) {
		if (nondet_bool()) {
			json_t *old = jwt->headers;
			jwt->headers = nondet_bool() ? NULL : mk_node(JSON_OBJECT);
			free(old);
		}
		set_error(jwt);
		g_parse_ret = 1;
		return 1;
	}

	/* success */
	json_t *oh = jwt->headers, *oc = jwt->claims;
	json_t *h = mk_node(JSON_OBJECT);
	jwt_alg_t a = (jwt_alg_t)nondet_int();
	__CPROVER_assume(SPEC_ALG_KNOWN(a));
	if (KEY3(g_json_key, 'a', 'l', 'g')) {
		h->tracked = mk_node(JSON_STRING);
		h->tracked->sval = mk_string();
		__CPROVER_assume(g_vj_len_c >= 6);
		__CPROVER_assume(SPEC_NAME_IS(h->tracked->sval, a));
	} else if (nondet_bool()) {
		h->tracked = mk_any();
	}
	json_t *c = mk_node(nondet_bool() ? JSON_OBJECT : JSON_ARRAY);
	if (c->type == JSON_OBJECT && nondet_bool())
		c->tracked = mk_any();
	jwt->headers = h;
	jwt->claims = c;
	jwt->alg = a;
	free(oh);
	free(oc);

	unsigned l = nondet_uint();
	__CPROVER_assume(l >= 1 && l < tl && token[l] == '.');
	*len = l;

	g_parse_ret = 0;
	g_parsed_alg = a;
	g_parsed_len = l;
	g_parsed_has = c->tracked != NULL;
	g_parsed_type = c->tracked ? (int)c->tracked->type : -1;
	g_parsed_int = c->tracked ? c->tracked->ival : 0;
	g_parsed_str = c->tracked ? c->tracked->sval : NULL;
	return 0;
}

/* ---- abstract jwt_verify_complete: records what it was asked to judge ---- */
unsigned g_vc_calls; const char *g_vc_token; unsigned g_vc_plen; const jwk_item_t *g_vc_key; jwt_alg_t g_vc_alg;
jwt_alg_t g_vc_hdr_alg; const void *g_vc_checker; int g_vc_has, g_vc_type; long long g_vc_int; const char *g_vc_str;
int g_vc_error;

jwt_t *jwt_verify_complete(jwt_t *jwt, const jwt_config_t *config, const char *token, unsigned int payload_len)
{
	/* the preconditions of contract_all_jwt_verify_complete that concern the caller */
	__CPROVER_assert(__CPROVER_rw_ok(jwt, sizeof(*jwt)), "jwt_verify_complete: jwt object valid");
	__CPROVER_assert(__CPROVER_r_ok(config, sizeof(*config)), "jwt_verify_complete: config valid");
	__CPROVER_assert(config->key == NULL || __CPROVER_r_ok(config->key, sizeof(*config->key)), "jwt_verify_complete: config key NULL or valid");
	__CPROVER_assert(token != NULL && __CPROVER_r_ok(token, (size_t)payload_len + 2), "jwt_verify_complete: token readable up to the signature");
	__CPROVER_assert(jwt->claims != NULL && __CPROVER_r_ok(jwt->claims, sizeof(json_t)), "jwt_verify_complete: claims document valid");
	__CPROVER_assert(jwt->claims->tracked == NULL || __CPROVER_r_ok(jwt->claims->tracked, sizeof(json_t)), "jwt_verify_complete: tracked claim valid");
	__CPROVER_assert(jwt->checker != NULL && __CPROVER_r_ok(jwt->checker, sizeof(*jwt->checker)), "jwt_verify_complete: jwt->checker set");
	__CPROVER_assert(jwt->error_msg[JWT_ERR_LEN - 1] == 0, "jwt_verify_complete: message buffer terminated");
	g_vc_calls++;
	g_vc_token = token; g_vc_plen = payload_len; g_vc_key = config->key; g_vc_alg = config->alg;
	g_vc_hdr_alg = jwt->alg; g_vc_checker = jwt->checker;
	g_vc_has = jwt->claims->tracked != NULL;
	g_vc_type = g_vc_has ? (int)jwt->claims->tracked->type : -1;
	g_vc_int = g_vc_has ? jwt->claims->tracked->ival : 0;
	g_vc_str = g_vc_has ? jwt->claims->tracked->sval : NULL;
	/* effect allowed by the contract: key latched, flag possibly set */
	if (nondet_bool())
		jwt->key = config->key;
	if (nondet_bool())
		set_error(jwt);
	g_vc_error = jwt->error;
	return jwt;
}

/* ---- the two jansson entry points jwt_checker_verify itself uses (around the
 * callback): light models, equivalent to stubs/jansson.c on the tracked member.
 * json_delete releases nothing here (the unit does not look for use-after-free
 * of the replaced claims object; cbmc is very slow on write-then-free). ---- */
json_t *json_deep_copy(const json_t *value)
{
	if (value == NULL || nondet_bool())
		return NULL;
	json_t *c = mk_node(value->type);
	c->ival = value->ival; c->sval = value->sval; c->asize = value->asize;
	if (value->type == JSON_OBJECT && value->tracked != NULL) {
		json_t *t = mk_node(value->tracked->type);
		t->ival = value->tracked->ival; t->sval = value->tracked->sval; t->asize = value->tracked->asize;
		c->tracked = t;
	}
	return c;
}
void json_delete(json_t *json) { (void)json; }

/* further jansson entry points a restructured jwt_checker_verify may use around the callback
 * (not used by the pinned code): same tracked-member semantics as stubs/jansson.c */
static int is_tracked_key(const char *k)
{
	return g_json_key != NULL && k != NULL && k[0] == g_json_key[0] && (k[0] == 0 || (k[1] == g_json_key[1] && (k[1] == 0 ||
	       (k[2] == g_json_key[2] && (k[2] == 0 || k[3] == g_json_key[3])))));
}
json_t *json_object(void) { return nondet_bool() ? NULL : mk_node(JSON_OBJECT); }
json_t *json_object_get(const json_t *object, const char *key)
{
	if (object == NULL || key == NULL || object->type != JSON_OBJECT)
		return NULL;
	if (is_tracked_key(key))
		return object->tracked;
	return nondet_bool() ? NULL : mk_any();
}
int json_object_set_new(json_t *object, const char *key, json_t *value)
{
	if (object == NULL || key == NULL || value == NULL || object->type != JSON_OBJECT || nondet_bool())
		return -1;
	if (is_tracked_key(key))
		object->tracked = value;
	return 0;
}
int json_object_update(json_t *object, json_t *other)
{
	if (object == NULL || other == NULL || object->type != JSON_OBJECT || other->type != JSON_OBJECT || nondet_bool())
		return -1;
	if (other->tracked != NULL)
		object->tracked = other->tracked;
	return 0;
}
