/* env.c -- getenv("JWT_CRYPTO") returns the ghost g_env_value; stderr output is ignored */
#include <stdlib.h>
const char *g_env_value;
char *getenv(const char *name) { (void)name; return (char *)g_env_value; }
