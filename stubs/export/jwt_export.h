/* Copyright (C) 2024-2025 maClara, LLC <info@maclara-llc.com>
   This file is part of the JWT C Library

   SPDX-License-Identifier:  MPL-2.0
   This Source Code Form is subject to the terms of the Mozilla Public
   License, v. 2.0. If a copy of the MPL was not distributed with this
   file, You can obtain one at http://mozilla.org/MPL/2.0/. */

#ifndef JWT_EXPORT_H
#define JWT_EXPORT_H

/* Version macros for LibJWT */
#define JWT_VERSION_MAJOR	3
#define JWT_VERSION_MINOR	2
#define JWT_VERSION_MICRO	1

#define JWT_VERSION_STRING	"3.2.1"

#ifdef JWT_STATIC_DEFINE
#  define JWT_EXPORT
#  define JWT_NO_EXPORT
#else
#  ifndef JWT_EXPORT
#    ifdef jwt_EXPORTS
        /* We are building this library */
#      define JWT_EXPORT __attribute__((visibility("default")))
#    else
        /* We are using this library */
#      define JWT_EXPORT __attribute__((visibility("default")))
#    endif
#  endif

#  ifndef JWT_NO_EXPORT
#    define JWT_NO_EXPORT __attribute__((visibility("hidden")))
#  endif
#endif

#ifndef JWT_CONSTRUCTOR
#  define JWT_CONSTRUCTOR __attribute__ ((__constructor__))
#endif

#ifndef JWT_DEPRECATED
#  define JWT_DEPRECATED __attribute__ ((__deprecated__))
#endif

#ifndef JWT_DEPRECATED_EXPORT
#  define JWT_DEPRECATED_EXPORT JWT_EXPORT JWT_DEPRECATED
#endif

#ifndef JWT_DEPRECATED_NO_EXPORT
#  define JWT_DEPRECATED_NO_EXPORT JWT_NO_EXPORT JWT_DEPRECATED
#endif

/* NOLINTNEXTLINE(readability-avoid-unconditional-preprocessor-if) */
#if 0 /* DEFINE_NO_DEPRECATED */
#  ifndef JWT_NO_DEPRECATED
#    define JWT_NO_DEPRECATED
#  endif
#endif

#endif /* JWT_EXPORT_H */
