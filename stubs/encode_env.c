/* encode_env.c -- environment of jwt_encode() (libjwt/jwt-encode.c) for its unit:
 * recording models of strcpy / strcat / sprintf (assumed libc contracts with CHECKED
 * destination sizes) and an ABSTRACT BODY of jwt_sign() that records what it is asked
 * to sign (the real jwt_sign is verified by the C01/C02/C09 units). */
#include <stdlib.h>
#include <string.h>
#include <jwt.h>
#include "jwt-private.h"
#include "spec.h"
_Bool nondet_bool(void);
size_t nondet_size_t(void);
unsigned nondet_uint(void);
char nondet_char(void);
#define ROOM(p) (__CPROVER_OBJECT_SIZE(p) - __CPROVER_POINTER_OFFSET(p))

/* ghost: how the signing input and the final token were assembled */
const char *g_cpy_dst, *g_cpy_src;		/* strcpy(buf, head) */
unsigned g_cat_calls; const char *g_cat_dst[3], *g_cat_src[3];	/* strcat(buf, "."), strcat(buf, payload), strcat(buf, ".") */
const char *g_spf_dst, *g_spf_a, *g_spf_b, *g_spf_c;	/* sprintf(*out, "%s.%s.%s", head, payload, sig) */
unsigned g_js_calls; const char *g_js_str; unsigned g_js_len; jwt_alg_t g_js_alg; int g_js_ret;	/* jwt_sign */
size_t g_len_cpy, g_len_cat[3];			/* lengths of the strings involved (as strlen saw them) */

/* ---- a CONSISTENT strlen: the length of a string is chosen once (first query) and
 * remembered; strcpy/strcat update the record of their destination.  (The generic
 * model of stubs/libc.c picks a terminator afresh on every call, which is too weak to
 * follow jwt_encode's size arithmetic.) ---- */
#define NREG 8
const char *reg_p[NREG]; size_t reg_n[NREG]; unsigned reg_cnt;	/* the unit requires reg_cnt == 0 (DFCC havocs statics on entry) */
static void reg_set(const char *p, size_t n)
{
	for (unsigned i = 0; i < NREG; i++)
		if (i < reg_cnt && reg_p[i] == p) { reg_n[i] = n; return; }
	__CPROVER_assert(reg_cnt < NREG, "string registry large enough for jwt_encode");
	reg_p[reg_cnt] = p; reg_n[reg_cnt] = n; reg_cnt++;
}
size_t strlen(const char *s)
{
	__CPROVER_assert(s != NULL, "strlen: non-NULL argument");
	for (unsigned i = 0; i < NREG; i++)
		if (i < reg_cnt && reg_p[i] == s) return reg_n[i];
	size_t n = nondet_size_t();
	__CPROVER_assume(n < ROOM(s) && n <= ((size_t)1 << 40) && s[n] == 0 && (n == 0 || s[0] != 0));
	reg_set(s, n);
	return n;
}

char *strcpy(char *dst, const char *src)
{
	size_t n = strlen(src);
	__CPROVER_assert(dst != NULL && n < ROOM(dst), "strcpy: destination large enough for the string and its terminator");
	g_cpy_dst = dst; g_cpy_src = src; g_len_cpy = n;
	/* content: only the terminator is modelled (the bytes are never inspected by libjwt,
	 * they are handed to jwt_sign / the caller; a symbolic-length havoc costs minutes) */
	dst[n] = 0;
	reg_set(dst, n);
	return dst;
}
char *strcat(char *dst, const char *src)
{
	size_t d = strlen(dst), n = strlen(src);
	__CPROVER_assert(dst != NULL && d + n < ROOM(dst), "strcat: destination large enough for both strings and the terminator");
	if (g_cat_calls < 3) { g_cat_dst[g_cat_calls] = dst; g_cat_src[g_cat_calls] = src; g_len_cat[g_cat_calls] = n; }
	g_cat_calls++;
	dst[d + n] = 0;
	reg_set(dst, d + n);
	return dst;
}
int verif_sprintf3(char *dst, const char *fmt, const char *a, const char *b, const char *c)
{
	size_t la = strlen(a), lb = strlen(b), lc = strlen(c);
	__CPROVER_assert(fmt[0] == '%' && fmt[1] == 's' && fmt[2] == '.' && fmt[3] == '%' && fmt[4] == 's' && fmt[5] == '.' && fmt[6] == '%' && fmt[7] == 's' && fmt[8] == 0,
			 "sprintf: the format is \"%s.%s.%s\"");
	__CPROVER_assert(dst != NULL && la + lb + lc + 2 < ROOM(dst), "sprintf: destination large enough for head.payload.signature and the terminator");
	g_spf_dst = dst; g_spf_a = a; g_spf_b = b; g_spf_c = c;
	dst[la + lb + lc + 2] = 0;
	return (int)(la + lb + lc + 2);
}

int jwt_sign(jwt_t *jwt, char **out, unsigned int *len, const char *str, unsigned int str_len)
{
	__CPROVER_assert(__CPROVER_rw_ok(jwt, sizeof(*jwt)) && __CPROVER_w_ok(out, sizeof(*out)) && __CPROVER_w_ok(len, sizeof(*len)), "jwt_sign: arguments valid");
	__CPROVER_assert(*out == NULL, "jwt_sign: result pointer starts out NULL");
	__CPROVER_assert(str_len == 0 || __CPROVER_r_ok(str, str_len), "jwt_sign: signing input readable for str_len bytes");
	g_js_calls++; g_js_str = str; g_js_len = str_len; g_js_alg = jwt->alg;
	if (nondet_bool()) {
		/* failure: flag and message (contract_*_jwt_sign) */
		if (jwt->error_msg[0] == 0) { char ch = nondet_char(); __CPROVER_assume(ch != 0); jwt->error_msg[0] = ch; jwt->error_msg[1] = 0; }
		jwt->error = 1;
		g_js_ret = 1;
		return 1;
	}
	unsigned n = nondet_uint();
	__CPROVER_assume(n >= 1 && n <= 1024);
	char *s = malloc(n);
	__CPROVER_assume(s != NULL);
	*out = s; *len = n;
	g_js_ret = 0;
	return 0;
}
