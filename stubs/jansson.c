/* jansson.c -- ASSUMED model of the jansson functions libjwt calls
 * (trusted base, DESIGN.md section 5).
 *
 * Objects are modelled as maps observed through ONE tracked key
 * (g_json_key, an arbitrary string of at most 7 characters chosen by the
 * harness): the member stored under the tracked key is modelled exactly
 * (set / get / del / clear / update / update_missing / deep copy), every other
 * member is nondeterministic on every access.  Since the tracked key is
 * arbitrary, a fact proved about it holds for every key -- the map analogue of
 * the ghost-index technique (DESIGN L4).
 *
 * Typing: constructors return NULL (allocation failure) or a fresh node of the
 * stated type; accessors on a node of another type return NULL / 0, exactly as
 * jansson documents.  json_object_get on an untracked key returns NULL or a
 * fresh node of ARBITRARY type -- this is the type-confusion space of C07.
 *
 * Ghost: g_json_version is bumped by every mutator; g_json_mutations counts
 * mutator calls (C15 "no change" = unchanged count).
 */
#include <stddef.h>
#include <stdlib.h>
#include <stdio.h>
#include <jansson.h>

_Bool nondet_bool(void);
int nondet_int(void);
size_t nondet_size_t(void);
long long nondet_longlong(void);

#include "jansson_model.h"
const char *g_json_key;		/* the tracked key (set by the harness; NULL = track nothing) */
unsigned g_json_version;	/* bumped by every mutator call */
unsigned g_json_mutations;	/* number of mutator calls */
unsigned g_json_loads_flags;	/* flags of the last json_loads/loadb call */
unsigned g_json_dumps_flags;	/* flags of the last json_dumps call */
const json_t *g_json_dumped;	/* ... and the value it was asked to serialise */
json_t *g_json_loaded;		/* document returned by the last json_loads/loadb/load_file/loadf (NULL: it failed) */
json_t *g_json_loaded_tracked;	/* ... and its tracked member at load time */
int g_json_update_kind;		/* last merge: 1 = json_object_update, 2 = json_object_update_missing */
#ifndef VJ_MAX_STR
#define VJ_MAX_STR 0x1000000
#endif

static _Bool vj_is_tracked(const char *key)
{
	const char *t = g_json_key;
	if (t == NULL || key == NULL)
		return 0;
	/* exact comparison of two strings, the tracked one being at most 7 chars */
	if (key[0] != t[0]) return 0; if (t[0] == 0) return 1;
	if (key[1] != t[1]) return 0; if (t[1] == 0) return 1;
	if (key[2] != t[2]) return 0; if (t[2] == 0) return 1;
	if (key[3] != t[3]) return 0; if (t[3] == 0) return 1;
	if (key[4] != t[4]) return 0; if (t[4] == 0) return 1;
	if (key[5] != t[5]) return 0; if (t[5] == 0) return 1;
	if (key[6] != t[6]) return 0; if (t[6] == 0) return 1;
	if (key[7] != t[7]) return 0;
	return 1;
}

static vj_t *vj_new(json_type type)
{
#ifndef VERIF_JSON_ALLOC_NEVER_FAILS
	if (nondet_bool())
		return NULL;
#endif
	vj_t *n = malloc(sizeof(*n));
	__CPROVER_assume(n != NULL);
	n->type = type;
	n->refcount = 1;
	n->ival = 0;
	n->sval = NULL;
	n->tracked = NULL;
	n->asize = 0;
	return n;
}

/* a fresh string of arbitrary content.  Its capacity is the ghost constant
 * g_vj_len_c (arbitrary, fixed per run); since the content is arbitrary --
 * interior NULs included -- the C-string length is any value up to it, so no
 * generality is lost, and contracts can name the object size. */
static char *vj_nondet_string(void)
{
	size_t len = g_vj_len_c;
	__CPROVER_assume(len < VJ_MAX_STR);
	char *s = malloc(len + 1);
	__CPROVER_assume(s != NULL);
	s[len] = 0;
	return s;
}

/* a fresh node of arbitrary JSON type with arbitrary content */
static vj_t *vj_any_shallow(void)
{
	json_type t = (json_type)nondet_int();
	__CPROVER_assume(t >= JSON_OBJECT && t <= JSON_NULL);
	vj_t *n = malloc(sizeof(*n));
	__CPROVER_assume(n != NULL);
	n->type = t;
	n->refcount = 1;
	n->ival = nondet_longlong();
	n->sval = (t == JSON_STRING) ? vj_nondet_string() : NULL;
	n->tracked = NULL;
	n->asize = nondet_size_t();
#ifndef VJ_MAX_ASIZE
#define VJ_MAX_ASIZE 0x100000
#endif
	__CPROVER_assume(n->asize < VJ_MAX_ASIZE);
	return n;
}

static vj_t *vj_any(void)
{
	vj_t *n = vj_any_shallow();
	if (n->type == JSON_OBJECT && nondet_bool())
		n->tracked = vj_any_shallow();
	return n;
}

/* ---- constructors ---- */
json_t *json_object(void) { return (json_t *)vj_new(JSON_OBJECT); }
json_t *json_array(void) { return (json_t *)vj_new(JSON_ARRAY); }
json_t *json_true(void) { return (json_t *)vj_new(JSON_TRUE); }
json_t *json_false(void) { return (json_t *)vj_new(JSON_FALSE); }
json_t *json_null(void) { return (json_t *)vj_new(JSON_NULL); }

json_t *json_integer(json_int_t value)
{
	vj_t *n = vj_new(JSON_INTEGER);
	if (n)
		n->ival = value;
	return (json_t *)n;
}

json_t *json_string(const char *value)
{
	if (value == NULL)
		return NULL;
	/* jansson refuses invalid UTF-8: may fail for any input */
	vj_t *n = vj_new(JSON_STRING);
	if (n) {
		/* an exact copy: the model keeps a pointer to an equal string.
		 * (libjwt never mutates the source while the node lives.) */
		n->sval = (char *)value;
	}
	return (json_t *)n;
}

/* ---- destruction ---- */
/* Releasing a node does not call free() (cbmc 6.11 under DFCC needs ~15M
 * clauses per free of a written object); the node is POISONED instead and
 * every model entry point asserts that the node it is given is not poisoned,
 * which detects use-after-release and double release through the jansson API.
 * (-DVJ_MODEL_FREE restores a real free for units that can afford it.) */
#define VJ_DEAD ((json_type)-1)
#define VJ_LIVE(j) __CPROVER_assert((j) == NULL || (j)->type != VJ_DEAD, "jansson: value used after its last reference was dropped")
/* (json_incref / json_decref call verif_json_live() first thing: both are inserted into the generated header by
 * bin/check; the assertion there is "type != VJ_DEAD") */
static void vj_release(vj_t *n)
{
	__CPROVER_assert(n->type != VJ_DEAD, "jansson: value released twice");
	n->type = VJ_DEAD;
#ifdef VJ_MODEL_FREE
	free(n);
#endif
}
void json_delete(json_t *json)
{
	vj_t *n = (vj_t *)json;
	if (n == NULL)
		return;
	if (n->type == JSON_OBJECT && n->tracked != NULL) {
		vj_t *c = n->tracked;
		n->tracked = NULL;
		/* one level: members of members are not modelled */
		if (c->refcount != (size_t)-1 && --c->refcount == 0)
			vj_release(c);
	}
	vj_release(n);
}

/* ---- accessors ---- */
const char *json_string_value(const json_t *json)
{
	VJ_LIVE(json);
	const vj_t *n = json;
	if (n == NULL || n->type != JSON_STRING)
		return NULL;
	return n->sval;
}

int json_integer_set(json_t *integer, json_int_t value)
{
	VJ_LIVE(integer);
	vj_t *n = (vj_t *)integer;
	if (n == NULL || n->type != JSON_INTEGER)
		return -1;
	g_json_mutations++;
	g_json_version++;
	n->ival = value;		/* in place: every holder of this node sees the new value */
	return 0;
}

json_int_t json_integer_value(const json_t *json)
{
	VJ_LIVE(json);
	const vj_t *n = json;
	if (n == NULL || n->type != JSON_INTEGER)
		return 0;
	return n->ival;
}

json_t *json_object_get(const json_t *object, const char *key)
{
	VJ_LIVE(object);
	const vj_t *o = (const vj_t *)object;
	if (o == NULL || key == NULL || o->type != JSON_OBJECT)
		return NULL;
	if (vj_is_tracked(key))
		return (json_t *)o->tracked;
#ifdef VERIF_WELLFORMED
	/* COMPLETENESS units (C08): the object is a WELL-FORMED JWK -- every member the importers ask
	 * for is present and is a string, except that the private-only members (d p q dp dq qi) are
	 * present exactly when the key is private (ghost g_wf_private) and "alg" is optional. */
	{
		extern int g_wf_private;
		_Bool priv_only = (key[0] == 'd' && (key[1] == 0 || ((key[1] == 'p' || key[1] == 'q') && key[2] == 0))) ||
			((key[0] == 'p' || key[0] == 'q') && key[1] == 0) || (key[0] == 'q' && key[1] == 'i' && key[2] == 0);
		if (priv_only && !g_wf_private)
			return NULL;
		if (key[0] == 'a' && key[1] == 'l' && key[2] == 'g' && key[3] == 0 && nondet_bool())
			return NULL;
		vj_t *n = malloc(sizeof(*n));
		__CPROVER_assume(n != NULL);
		n->type = JSON_STRING; n->refcount = 1; n->ival = 0; n->sval = vj_nondet_string(); n->tracked = NULL; n->asize = 0;
		return (json_t *)n;
	}
#else
	if (nondet_bool())
		return NULL;
	return (json_t *)vj_any_shallow();	/* borrowed; arbitrary type */
#endif
}

#ifdef VJ_ARRAY_STATIC_ELEM
char nondet_char(void);
vj_t g_vj_elem; char g_vj_elem_str[12];
#endif
size_t json_array_size(const json_t *array)
{
	VJ_LIVE(array);
	const vj_t *a = (const vj_t *)array;
	if (a == NULL || a->type != JSON_ARRAY)
		return 0;
	return a->asize;
}

json_t *json_array_get(const json_t *array, size_t index)
{
	VJ_LIVE(array);
	const vj_t *a = (const vj_t *)array;
	if (a == NULL || a->type != JSON_ARRAY || index >= a->asize)
		return NULL;
#ifdef VJ_ARRAY_STATIC_ELEM
	/* the element is handed out in ONE static node (re-filled with arbitrary content on every
	 * call): cbmc's loop-contract instrumentation does not allow allocation inside a loop, and
	 * libjwt only looks at the element it was just given (json_array_foreach) */
	{
		json_type t = (json_type)nondet_int();
		__CPROVER_assume(t >= JSON_OBJECT && t <= JSON_NULL);
		g_vj_elem.type = t; g_vj_elem.refcount = 1; g_vj_elem.ival = nondet_longlong(); g_vj_elem.tracked = NULL;
		g_vj_elem.asize = 0;
		g_vj_elem_str[0] = nondet_char(); g_vj_elem_str[1] = nondet_char(); g_vj_elem_str[2] = nondet_char(); g_vj_elem_str[3] = nondet_char();
		g_vj_elem_str[4] = nondet_char(); g_vj_elem_str[5] = nondet_char(); g_vj_elem_str[6] = nondet_char(); g_vj_elem_str[7] = nondet_char();
		g_vj_elem_str[8] = nondet_char(); g_vj_elem_str[9] = nondet_char(); g_vj_elem_str[10] = nondet_char(); g_vj_elem_str[11] = 0;
		g_vj_elem.sval = (t == JSON_STRING) ? g_vj_elem_str : NULL;
		return (json_t *)&g_vj_elem;
	}
#else
	return (json_t *)vj_any();	/* borrowed; arbitrary type */
#endif
}

/* ---- mutators ---- */
static void vj_drop(vj_t *c)
{
	if (c != NULL && c->refcount != (size_t)-1 && --c->refcount == 0)
		json_delete((json_t *)c);
}

int json_object_set_new(json_t *object, const char *key, json_t *value)
{
	VJ_LIVE(object);
	vj_t *o = (vj_t *)object;
	g_json_mutations++;
	g_json_version++;
	if (value == NULL)
		return -1;
	if (o == NULL || key == NULL || o->type != JSON_OBJECT || object == value
#ifndef VERIF_JSON_ALLOC_NEVER_FAILS
	    || nondet_bool()		/* table growth may fail */
#endif
	    ) {
		vj_drop((vj_t *)value);
		return -1;
	}
	if (vj_is_tracked(key)) {
		vj_t *old = o->tracked;
		o->tracked = (vj_t *)value;	/* steals the reference */
		vj_drop(old);
	}
	/* untracked key: the reference is owned by the (unmodelled) rest of the map */
	return 0;
}

int json_object_del(json_t *object, const char *key)
{
	VJ_LIVE(object);
	vj_t *o = (vj_t *)object;
	g_json_mutations++;
	g_json_version++;
	if (o == NULL || key == NULL || o->type != JSON_OBJECT)
		return -1;
	if (vj_is_tracked(key)) {
		vj_t *old = o->tracked;
		if (old == NULL)
			return -1;
		o->tracked = NULL;
		vj_drop(old);
		return 0;
	}
	return nondet_bool() ? 0 : -1;
}

int json_object_clear(json_t *object)
{
	VJ_LIVE(object);
	vj_t *o = (vj_t *)object;
	g_json_mutations++;
	g_json_version++;
	if (o == NULL || o->type != JSON_OBJECT)
		return -1;
	vj_t *old = o->tracked;
	o->tracked = NULL;
	vj_drop(old);
	return 0;
}

static int vj_update(json_t *object, json_t *other, int missing_only)
{
	VJ_LIVE(object);
	vj_t *o = (vj_t *)object, *s = (vj_t *)other;
	g_json_mutations++;
	g_json_version++;
	if (o == NULL || s == NULL || o->type != JSON_OBJECT || s->type != JSON_OBJECT)
		return -1;
#ifndef VERIF_JSON_ALLOC_NEVER_FAILS
	if (nondet_bool())
		return -1;	/* (jansson may have applied a prefix of the members) */
#endif
	if (s->tracked != NULL && (!missing_only || o->tracked == NULL)) {
		vj_t *old = o->tracked;
		s->tracked->refcount++;
		o->tracked = s->tracked;
		vj_drop(old);
	}
	return 0;
}
int json_object_update(json_t *object, json_t *other) { g_json_update_kind = 1; return vj_update(object, other, 0); }
int json_object_update_missing(json_t *object, json_t *other) { g_json_update_kind = 2; return vj_update(object, other, 1); }

int json_array_append_new(json_t *array, json_t *value)
{
	vj_t *a = (vj_t *)array;
	g_json_mutations++;
	g_json_version++;
	if (value == NULL)
		return -1;
	if (a == NULL || a->type != JSON_ARRAY || nondet_bool()) {
		vj_drop((vj_t *)value);
		return -1;
	}
	a->asize++;
	return 0;
}

/* ---- copy / load / dump ---- */
static vj_t *vj_copy_shallow(const vj_t *n)
{
	vj_t *c = vj_new(n->type);
	if (c == NULL)
		return NULL;
	c->ival = n->ival;
	c->sval = n->sval;
	c->asize = n->asize;
	return c;
}

/* a copy fails only when the allocator does (units that follow allocation failures, C17) */
#ifdef VERIF_ALLOC_RECORD_FAIL
extern int g_lib_fail;
#define VJ_RECORD_ALLOC_FAIL (g_lib_fail = 1)
#else
#define VJ_RECORD_ALLOC_FAIL ((void)0)
#endif
json_t *json_deep_copy(const json_t *value)
{
	VJ_LIVE(value);
	const vj_t *n = (const vj_t *)value;
	if (n == NULL)
		return NULL;
	vj_t *c = vj_copy_shallow(n);
	if (c == NULL) {
		VJ_RECORD_ALLOC_FAIL;
		return NULL;
	}
	if (n->type == JSON_OBJECT && n->tracked != NULL) {
		c->tracked = vj_copy_shallow(n->tracked);
		if (c->tracked == NULL) {
			free(c);
			VJ_RECORD_ALLOC_FAIL;
			return NULL;
		}
	}
	return (json_t *)c;
}

static json_t *vj_load(size_t flags, json_error_t *error)
{
	g_json_loads_flags = (unsigned)flags;
	g_json_loaded = NULL;
	g_json_loaded_tracked = NULL;
	if (nondet_bool()) {
		if (error != NULL) {
			/* jansson fills source and text with NUL-terminated strings */
			error->line = nondet_int();
			error->column = nondet_int();
			error->position = nondet_int();
			__CPROVER_havoc_slice(error->source, JSON_ERROR_SOURCE_LENGTH);
			error->source[JSON_ERROR_SOURCE_LENGTH - 1] = 0;
			__CPROVER_havoc_slice(error->text, JSON_ERROR_TEXT_LENGTH);
			error->text[JSON_ERROR_TEXT_LENGTH - 1] = 0;
		}
		return NULL;
	}
	vj_t *n = vj_any();
	/* without JSON_DECODE_ANY only arrays and objects are returned */
	if (!(flags & JSON_DECODE_ANY))
		__CPROVER_assume(n->type == JSON_OBJECT || n->type == JSON_ARRAY);
	g_json_loaded = n;
	g_json_loaded_tracked = n->tracked;
	return (json_t *)n;
}

json_t *json_loads(const char *input, size_t flags, json_error_t *error)
{
	g_json_loaded = NULL; g_json_loaded_tracked = NULL; g_json_loads_flags = (unsigned)flags;
	if (input == NULL)
		return NULL;	/* jansson: error "wrong arguments" */
	return vj_load(flags, error);
}
json_t *json_loadb(const char *buffer, size_t buflen, size_t flags, json_error_t *error)
{
	if (buffer == NULL)
		return NULL;
	__CPROVER_assert(buflen == 0 || __CPROVER_r_ok(buffer, buflen), "json_loadb: buffer readable for buflen bytes");
	return vj_load(flags, error);
}
json_t *json_load_file(const char *path, size_t flags, json_error_t *error)
{
	if (path == NULL)
		return NULL;
	return vj_load(flags, error);
}
json_t *json_loadf(FILE *input, size_t flags, json_error_t *error)
{
	if (input == NULL)
		return NULL;
	return vj_load(flags, error);
}

char *json_dumps(const json_t *json, size_t flags)
{
	VJ_LIVE(json);
	g_json_dumps_flags = (unsigned)flags;
	g_json_dumped = json;
	if (json == NULL)
		return NULL;
#ifndef VERIF_JSON_ALLOC_NEVER_FAILS
	if (nondet_bool())
		return NULL;
#endif
	/* a non-empty NUL-terminated text of unknown length */
	size_t len = nondet_size_t();
	__CPROVER_assume(len >= 1 && len < VJ_MAX_STR);
	char *s = malloc(len + 1);
	__CPROVER_assume(s != NULL);
	s[len] = 0;
	__CPROVER_assume(s[0] != 0);
	return s;
}

void json_set_alloc_funcs(json_malloc_t malloc_fn, json_free_t free_fn)
{
	(void)malloc_fn; (void)free_fn;
}
