/* alloc.c -- model of libjwt's allocator entry points for translation units
 * other than jwt-memory.c: jwt_malloc may fail at EVERY call independently
 * (a superset of "the k-th allocation fails", property C17) and otherwise
 * returns a fresh object; __jwt_freemem frees.  The real jwt_malloc /
 * __jwt_freemem are verified to be exactly this when the installed allocator
 * is (units C17.jwt_malloc, C17.__jwt_freemem, C17.jwt_set_alloc on libjwt/jwt-memory.c). */
#include <stdlib.h>
_Bool nondet_bool(void);
#ifdef VERIF_ALLOC_NEVER_FAILS
void *jwt_malloc(size_t size) { void *p = malloc(size); __CPROVER_assume(p != NULL); return p; }
#else
#ifdef VERIF_ALLOC_RECORD_FAIL
extern int g_lib_fail;
void *jwt_malloc(size_t size) { if (nondet_bool()) { g_lib_fail = 1; return NULL; } void *p = malloc(size); __CPROVER_assume(p != NULL); return p; }
#else
void *jwt_malloc(size_t size) { if (nondet_bool()) return NULL; void *p = malloc(size); __CPROVER_assume(p != NULL); return p; }
#endif
#endif
#ifdef VERIF_ALLOC_NOFREE
/* release is RECORDED, not performed: cbmc's free() of an object of symbolic size that was
 * written at symbolic offsets makes the formula explode (tens of GB).  Units using this
 * variant do not detect use-after-free/double free of that object and say so. */
const void *g_freed_last; unsigned g_freed_calls;
void __jwt_freemem(void *ptr) { __CPROVER_assert(ptr == NULL || __CPROVER_POINTER_OFFSET(ptr) == 0, "__jwt_freemem: start of an object"); g_freed_last = ptr; if (g_freed_calls < 1000) g_freed_calls++; }
#else
void __jwt_freemem(void *ptr) { free(ptr); }
#endif
