/* alloc.c -- model of libjwt's allocator entry points for translation units
 * other than jwt-memory.c: jwt_malloc may fail at EVERY call independently
 * (a superset of "the k-th allocation fails", property C17) and otherwise
 * returns a fresh object; __jwt_freemem frees.  The real jwt_malloc /
 * __jwt_freemem are verified to be exactly this when the installed allocator
 * is (unit C17.jwt_malloc). */
#include <stdlib.h>
_Bool nondet_bool(void);
#ifdef VERIF_ALLOC_NEVER_FAILS
void *jwt_malloc(size_t size) { void *p = malloc(size); __CPROVER_assume(p != NULL); return p; }
#else
#ifdef VERIF_ALLOC_RECORD_FAIL
extern int g_lib_fail;
void *jwt_malloc(size_t size) { if (nondet_bool()) { g_lib_fail = 1; return NULL; } void *p = malloc(size); __CPROVER_assume(p != NULL); return p; }
#else
void *jwt_malloc(size_t size) { if (nondet_bool()) return NULL; void *p = malloc(size); __CPROVER_assume(p != NULL); return p; }
#endif
#endif
void __jwt_freemem(void *ptr) { free(ptr); }
