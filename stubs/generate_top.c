/* generate_top.c -- ABSTRACT BODIES of the callees of jwt_builder_generate
 * (jwt-common.c as jwt-builder) for its plumbing unit; each records in ghost
 * state what it was asked to do.  The real jwt_claim_set / jwt_head_setup /
 * jwt_encode_str are verified against their own contracts (C10, C15 units). */
#include <stdlib.h>
#include <string.h>
#include <jwt.h>
#include "jwt-private.h"
#include "jansson_model.h"
#include "spec.h"

_Bool nondet_bool(void);
int nondet_int(void);
char nondet_char(void);
size_t nondet_size_t(void);

/* ghost */
int g_oom;					/* some allocation failed during the call */
unsigned g_dc_calls; const json_t *g_dc_src[2]; json_t *g_dc_res[2];	/* json_deep_copy calls */
unsigned g_cs_calls; char g_cs_name0[3]; long g_cs_val[3]; int g_cs_replace[3]; int g_cs_ret[3];
const json_t *g_cs_target[3];			/* jwt->claims at each jwt_claim_set */
unsigned g_hs_calls; jwt_alg_t g_hs_alg; int g_hs_ret;		/* jwt_head_setup */
unsigned g_enc_calls; jwt_alg_t g_enc_alg; const jwk_item_t *g_enc_key; char *g_enc_ret;	/* jwt_encode_str */

static json_t *mk_node(json_type t)
{
	json_t *n = malloc(sizeof(*n));
	__CPROVER_assume(n != NULL);
	n->type = t; n->refcount = 1; n->ival = 0; n->sval = NULL; n->tracked = NULL; n->asize = 0;
	return n;
}

void *jwt_malloc(size_t size)
{
	if (nondet_bool()) { g_oom = 1; return NULL; }
	void *p = malloc(size);
	__CPROVER_assume(p != NULL);
	return p;
}
void __jwt_freemem(void *p) { (void)p; }

json_t *json_deep_copy(const json_t *value)
{
	unsigned k = g_dc_calls++;
	json_t *c = NULL;
	if (value != NULL && !nondet_bool()) {
		c = mk_node(value->type);
		c->tracked = value->tracked;	/* content equal to the source (shares the member in the model) */
	} else if (value != NULL) {
		g_oom = 1;
	}
	if (k < 2) { g_dc_src[k] = value; g_dc_res[k] = c; }
	return c;
}
/* json_copy is SHALLOW: the copy shares every member value with its source.  It is modelled so that a generate() that
 * uses it instead of json_deep_copy is JUDGED (the C10 clause "two deep copies, of the builder's headers and claims" fails)
 * rather than left without a verdict for calling an unmodelled function. */
json_t *json_copy(json_t *value)
{
	json_t *c = NULL;
	if (value != NULL && !nondet_bool()) {
		c = mk_node(value->type);
		c->tracked = value->tracked;
	} else if (value != NULL) {
		g_oom = 1;
	}
	return c;
}
void json_delete(json_t *json) { (void)json; }

static void set_error(jwt_t *jwt)
{
	if (jwt->error_msg[0] == 0) {
		char c = nondet_char();
		__CPROVER_assume(c != 0);
		jwt->error_msg[0] = c;
		jwt->error_msg[1] = 0;
	}
	jwt->error = 1;
}

jwt_value_error_t jwt_claim_set(jwt_t *jwt, jwt_value_t *value)
{
	__CPROVER_assert(__CPROVER_rw_ok(jwt, sizeof(*jwt)) && __CPROVER_rw_ok(value, sizeof(*value)), "jwt_claim_set: arguments valid");
	__CPROVER_assert(value->name != NULL && value->type == JWT_VALUE_INT, "jwt_claim_set: an integer claim with a name");
	unsigned k = g_cs_calls++;
	jwt_value_error_t r = JWT_VALUE_ERR_NONE;
	/* may fail: claims object missing (deep copy failed), allocation failure in jansson */
	if (jwt->claims == NULL || nondet_bool()) {
		r = JWT_VALUE_ERR_INVALID;
		g_oom = 1;
	}
	value->error = r;
	if (k < 3) {
		g_cs_name0[k] = value->name[0]; g_cs_val[k] = value->int_val; g_cs_replace[k] = value->replace;
		g_cs_ret[k] = r; g_cs_target[k] = jwt->claims;
	}
	return r;
}

int jwt_head_setup(jwt_t *jwt)
{
	__CPROVER_assert(__CPROVER_rw_ok(jwt, sizeof(*jwt)), "jwt_head_setup: jwt valid");
	g_hs_calls++;
	g_hs_alg = jwt->alg;
	/* fails when the header cannot be written: unknown algorithm (no name),
	 * headers object missing, allocation failure -- always with an error */
	if (!SPEC_ALG_KNOWN(jwt->alg) || jwt->headers == NULL || nondet_bool()) {
		set_error(jwt);
		g_hs_ret = 1;
		return 1;
	}
	g_hs_ret = 0;
	return 0;
}

char *jwt_encode_str(jwt_t *jwt)
{
	__CPROVER_assert(__CPROVER_rw_ok(jwt, sizeof(*jwt)), "jwt_encode_str: jwt valid");
	g_enc_calls++;
	g_enc_alg = jwt->alg;
	g_enc_key = jwt->key;
	if (nondet_bool()) {
		set_error(jwt);
		g_enc_ret = NULL;
		return NULL;
	}
	size_t n = nondet_size_t();
	__CPROVER_assume(n >= 5 && n < 0x1000000);
	char *s = malloc(n + 1);
	__CPROVER_assume(s != NULL);
	s[n] = 0;
	g_enc_ret = s;
	return s;
}
