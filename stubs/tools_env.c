/* tools_env.c -- environment of the command-line tools' main() functions (tools/*.c)
 * for the C20 units.  Everything the tools call is ABSTRACT here: the library entry
 * points return any result their documentation allows, the C library calls touch no
 * token bytes.  Two of the stubs carry the property as CHECKED preconditions:
 *
 *   getopt_long(): every entry of the long-option table has its short letter in the
 *                  option string with the same argument arity ("either spelling of
 *                  the options the usage text documents" -- the usage text lists
 *                  exactly the table's pairs);
 *   exit():        POSIX keeps the low 8 bits of the status; once tokens have been
 *                  judged, that byte is 0 exactly when no token failed.
 */
#include <stdlib.h>
#include <stdio.h>
#include <sys/types.h>
#include <string.h>
#include <getopt.h>
#include <jwt.h>

_Bool nondet_bool(void);
int nondet_int(void);
unsigned nondet_uint(void);
size_t nondet_size_t(void);
char nondet_char(void);

/* ghost */
unsigned long long g_tok_calls, g_tok_bad;	/* tokens judged / judged bad (mathematical counters) */
int g_exit_status8;				/* what the parent process sees */
unsigned g_getopt_calls;
const char *g_tok_last;

int optind = 1, opterr, optopt;
char *optarg;
const char *__progname = "tool";

#define ROOM(p) (__CPROVER_OBJECT_SIZE(p) - __CPROVER_POINTER_OFFSET(p))

void exit(int status)
{
	g_exit_status8 = status & 0xff;
	__CPROVER_assert(!(g_tok_bad > 0) || g_exit_status8 != 0, "exit: a token failed to verify => the exit status seen by the parent is non-zero");
	__CPROVER_assert(!(g_tok_calls > 0 && g_tok_bad == 0) || g_exit_status8 == 0, "exit: every supplied token verified => exit status 0");
	if (g_tok_calls > 0)
		__CPROVER_assert(0, "VERIF_REACH_END exit after the token loop is reachable");
	__CPROVER_assume(0);
}

/* position of short letter c in optstr, -1 if absent (loop-free: option strings are short) */
#define POS(j) if (!end && optstr[j] == 0) end = 1; if (!end && optstr[j] != ':' && optstr[j] == c && found < 0) found = (j);
static int find_short(const char *optstr, char c)
{
	int found = -1; _Bool end = 0;
	POS(0) POS(1) POS(2) POS(3) POS(4) POS(5) POS(6) POS(7) POS(8) POS(9) POS(10) POS(11) POS(12) POS(13) POS(14) POS(15)
	POS(16) POS(17) POS(18) POS(19) POS(20) POS(21) POS(22) POS(23)
	if (!end && optstr[24] == 0) end = 1;
	__CPROVER_assert(end, "getopt_long: option string shorter than 25 characters (limit of this model)");
	return found;
}
#define ENT(i) if (!done && tbl[i].name == NULL) done = 1; \
	if (!done) { int f = find_short(optstr, (char)tbl[i].val); n++; \
		__CPROVER_assert(tbl[i].flag == NULL && f >= 0, "getopt_long: every long option has its short letter in the option string"); \
		__CPROVER_assert(f < 0 || ((optstr[f + 1] == ':') == (tbl[i].has_arg == required_argument)), \
				 "getopt_long: short and long spelling of an option agree on taking an argument"); }

int getopt_long(int argc, char *const argv[], const char *optstr, const struct option *tbl, int *idx)
{
	unsigned n = 0, k; _Bool done = 0;
	(void)idx;
	__CPROVER_assert(argc >= 1 && argv != NULL && optstr != NULL && tbl != NULL, "getopt_long: arguments valid");
	/* CHECKED precondition: the two tables describe the same options */
	ENT(0) ENT(1) ENT(2) ENT(3) ENT(4) ENT(5) ENT(6) ENT(7) ENT(8) ENT(9) ENT(10) ENT(11)
	if (!done && tbl[12].name == NULL) done = 1;
	__CPROVER_assert(done && n >= 1, "getopt_long: long-option table has 1..12 entries (limit of this model)");
#ifdef VERIF_GETOPT_STOP
	__CPROVER_assert(0, "VERIF_REACH_END getopt_long reached");
	__CPROVER_assume(0);
#endif
	if (g_getopt_calls < 1000) g_getopt_calls++;
#ifdef VERIF_STDIN_MODEL
	if (g_getopt_calls > 1 || nondet_bool()) {	/* bounded unit: at most one option */
#else
	if (nondet_bool()) {
#endif
		int oi = nondet_int();
		__CPROVER_assume(oi >= 1 && oi <= argc);
		optind = oi;
		return -1;
	}
	if (nondet_bool())
		return '?';
	k = nondet_uint();
	__CPROVER_assume(k < n);
	optarg = tbl[k].has_arg == required_argument ? (char *)"arg" : NULL;
	return tbl[k].val;
}

int strcmp(const char *a, const char *b) { return nondet_int(); }
#ifdef VERIF_STDIN_MODEL
/* ---- BOUNDED content model of standard input (unit C20.bounded.jwt_verify.stdin): at most VERIF_STDIN_LINES
 * lines of at most 6 characters (no NUL, no newline inside), each ended by a newline or -- the last one -- by
 * end of input.  The checker stub below asserts that the token it is handed is exactly such a line without
 * its terminator.  fgets and getline are both modelled, so the reading loop may use either. ---- */
#ifndef VERIF_STDIN_LINES
#define VERIF_STDIN_LINES 2
#endif
#ifndef VERIF_STDIN_MAXLEN
#define VERIF_STDIN_MAXLEN 3	/* at most 6 */
#endif
unsigned g_lines; const char *g_line_buf; unsigned g_line_len; char g_line_copy[8];
static int fill_line(char *s)
{
	unsigned L = nondet_uint();
	__CPROVER_assume(L <= VERIF_STDIN_MAXLEN);
	for (unsigned i = 0; i < 6; i++)
		if (i < L) { char c = nondet_char(); __CPROVER_assume(c != 0 && c != '\n'); s[i] = c; g_line_copy[i] = c; }
	_Bool nl = nondet_bool();
	if (nl) { s[L] = '\n'; s[L + 1] = 0; } else s[L] = 0;
	__CPROVER_assume(nl || L > 0);		/* an empty last line is end of input */
	g_line_buf = s; g_line_len = L;
	return (int)L + (nl ? 1 : 0);
}
size_t strlen(const char *s)
{
	if (g_line_buf != NULL && __CPROVER_same_object(s, g_line_buf) && s == g_line_buf)
		for (unsigned i = 0; i < 8; i++)
			if (s[i] == 0) return i;
	return nondet_size_t();		/* argument strings: no byte is modelled */
}
size_t strcspn(const char *s, const char *rej)
{
	__CPROVER_assert(rej[0] == '\n' && rej[1] == 0, "strcspn: the reject set is a newline (the only use in the tools)");
	for (unsigned i = 0; i < 8; i++)
		if (s[i] == 0 || s[i] == '\n') return i;
	return nondet_size_t();
}
char *fgets(char *s, int size, FILE *fp)
{
	__CPROVER_assert(size >= 8 && __CPROVER_w_ok(s, (size_t)size), "fgets: buffer writable");
	if (g_lines >= VERIF_STDIN_LINES || nondet_bool())
		return NULL;
	g_lines++;
	fill_line(s);
	return s;
}
ssize_t getline(char **lineptr, size_t *n, FILE *fp)
{
	__CPROVER_assert(lineptr != NULL && n != NULL, "getline: result pointers given");
	if (g_lines >= VERIF_STDIN_LINES || nondet_bool())
		return -1;
	g_lines++;
	char *b = malloc(8);
	__CPROVER_assume(b != NULL);
	*lineptr = b; *n = 8;
	return fill_line(b);
}
#else
/* ---- C library: no token byte is modelled ---- */
size_t strlen(const char *s) { return nondet_size_t(); }
size_t strcspn(const char *s, const char *rej)
{
	size_t n = nondet_size_t();
	__CPROVER_assume(n < ROOM(s));
	return n;
}
char *fgets(char *s, int size, FILE *fp)
{
	__CPROVER_assert(size >= 2 && __CPROVER_w_ok(s, (size_t)size), "fgets: buffer writable");
	if (nondet_bool())
		return NULL;
	s[size - 1] = 0;
	return s;
}
#endif
int verif_printf(void) { return 0; }

/* ---- libjwt as the tools see it ---- */
struct jwt_builder { int dummy; };
jwt_builder_t *jwt_builder_new(void) { return nondet_bool() ? NULL : malloc(sizeof(struct jwt_builder)); }
void jwt_builder_free(jwt_builder_t *b) { free(b); }
struct jwt_checker { int dummy; };
struct jwk_set { int dummy; };
jwt_checker_t *jwt_checker_new(void) { return nondet_bool() ? NULL : malloc(sizeof(struct jwt_checker)); }
void jwt_checker_free(jwt_checker_t *c) { free(c); }
int jwt_checker_verify(jwt_checker_t *c, const char *token)
{
	__CPROVER_assert(c != NULL, "jwt_checker_verify: checker non-NULL");
	__CPROVER_assume(g_tok_calls < 0xffffffffffffffffULL);	/* ASSUMED: fewer than 2^64 tokens in one run */
	g_tok_calls++;
	g_tok_last = token;
#ifdef VERIF_STDIN_MODEL
	/* C20: a token that comes from standard input is the line as it was written, without its line
	 * terminator -- nothing added, nothing chopped */
	if (g_line_buf != NULL && __CPROVER_same_object(token, g_line_buf)) {
		__CPROVER_assert(token == g_line_buf, "C20: the token handed to the checker starts at the start of the stdin line");
		_Bool same = 1;
		for (unsigned i = 0; i < 6; i++)
			if (i < g_line_len && token[i] != g_line_copy[i]) same = 0;
		__CPROVER_assert(same && token[g_line_len] == 0, "C20: the token handed to the checker is the stdin line without its terminator, complete");
	}
#endif
	if (nondet_bool()) {
		int r = nondet_int();
		__CPROVER_assume(r != 0);
		g_tok_bad++;
		return r;
	}
	return 0;
}
const char *jwt_checker_error_msg(const jwt_checker_t *c) { return ""; }
int jwt_checker_setkey(jwt_checker_t *c, const jwt_alg_t alg, const jwk_item_t *key)
{
	/* C20 / C02: the tool pins what the user asked for -- the library then refuses a key whose own alg differs */
	__CPROVER_assert(alg == g_user_alg, "jwt_checker_setkey: the algorithm handed on is the one given with -a (none if there was no -a)");
	return nondet_int();
}
int jwt_checker_setcb(jwt_checker_t *c, jwt_callback_t cb, void *ctx) { return nondet_int(); }
jwk_set_t *jwks_create_fromfile(const char *file_name) { return nondet_bool() ? NULL : malloc(sizeof(struct jwk_set)); }
void jwks_free(jwk_set_t *s) { free(s); }
int jwks_error(const jwk_set_t *s) { return nondet_int(); }
const char *jwks_error_msg(const jwk_set_t *s) { return ""; }
const jwk_item_t *jwks_item_get(const jwk_set_t *s, size_t i) { return nondet_bool() ? NULL : (const jwk_item_t *)s; }
int jwks_item_error(const jwk_item_t *it) { return nondet_int(); }
const char *jwks_item_error_msg(const jwk_item_t *it) { return ""; }
jwt_alg_t jwks_item_alg(const jwk_item_t *it) { jwt_alg_t a = (jwt_alg_t)nondet_int(); __CPROVER_assume(a >= JWT_ALG_NONE && a < JWT_ALG_INVAL); return a; }
jwt_alg_t g_user_alg;	/* ghost: the algorithm the user named last with -a / --algorithm (none if never) */
jwt_alg_t jwt_str_alg(const char *s) { jwt_alg_t a = (jwt_alg_t)nondet_int(); __CPROVER_assume(a >= JWT_ALG_NONE && a <= JWT_ALG_INVAL); g_user_alg = a; return a; }
const char *jwt_alg_str(jwt_alg_t a) { return "x"; }
