/* tools_env.c -- environment of the command-line tools' main() functions (tools/*.c)
 * for the C20 units.  Everything the tools call is ABSTRACT here: the library entry
 * points return any result their documentation allows, the C library calls touch no
 * token bytes.  Two of the stubs carry the property as CHECKED preconditions:
 *
 *   getopt_long(): every entry of the long-option table has its short letter in the
 *                  option string with the same argument arity ("either spelling of
 *                  the options the usage text documents" -- the usage text lists
 *                  exactly the table's pairs);
 *   exit():        POSIX keeps the low 8 bits of the status; once tokens have been
 *                  judged, that byte is 0 exactly when no token failed.
 */
#include <stdlib.h>
#include <stdio.h>
#include <string.h>
#include <getopt.h>
#include <jwt.h>

_Bool nondet_bool(void);
int nondet_int(void);
unsigned nondet_uint(void);
size_t nondet_size_t(void);
char nondet_char(void);

/* ghost */
unsigned long long g_tok_calls, g_tok_bad;	/* tokens judged / judged bad (mathematical counters) */
int g_exit_status8;				/* what the parent process sees */
unsigned g_getopt_calls;
const char *g_tok_last;

int optind = 1, opterr, optopt;
char *optarg;
const char *__progname = "tool";

#define ROOM(p) (__CPROVER_OBJECT_SIZE(p) - __CPROVER_POINTER_OFFSET(p))

void exit(int status)
{
	g_exit_status8 = status & 0xff;
	__CPROVER_assert(!(g_tok_bad > 0) || g_exit_status8 != 0, "exit: a token failed to verify => the exit status seen by the parent is non-zero");
	__CPROVER_assert(!(g_tok_calls > 0 && g_tok_bad == 0) || g_exit_status8 == 0, "exit: every supplied token verified => exit status 0");
	if (g_tok_calls > 0)
		__CPROVER_assert(0, "VERIF_REACH_END exit after the token loop is reachable");
	__CPROVER_assume(0);
}

/* position of short letter c in optstr, -1 if absent (loop-free: option strings are short) */
#define POS(j) if (!end && optstr[j] == 0) end = 1; if (!end && optstr[j] != ':' && optstr[j] == c && found < 0) found = (j);
static int find_short(const char *optstr, char c)
{
	int found = -1; _Bool end = 0;
	POS(0) POS(1) POS(2) POS(3) POS(4) POS(5) POS(6) POS(7) POS(8) POS(9) POS(10) POS(11) POS(12) POS(13) POS(14) POS(15)
	POS(16) POS(17) POS(18) POS(19) POS(20) POS(21) POS(22) POS(23)
	if (!end && optstr[24] == 0) end = 1;
	__CPROVER_assert(end, "getopt_long: option string shorter than 25 characters (limit of this model)");
	return found;
}
#define ENT(i) if (!done && tbl[i].name == NULL) done = 1; \
	if (!done) { int f = find_short(optstr, (char)tbl[i].val); n++; \
		__CPROVER_assert(tbl[i].flag == NULL && f >= 0, "getopt_long: every long option has its short letter in the option string"); \
		__CPROVER_assert(f < 0 || ((optstr[f + 1] == ':') == (tbl[i].has_arg == required_argument)), \
				 "getopt_long: short and long spelling of an option agree on taking an argument"); }

int getopt_long(int argc, char *const argv[], const char *optstr, const struct option *tbl, int *idx)
{
	unsigned n = 0, k; _Bool done = 0;
	(void)idx;
	__CPROVER_assert(argc >= 1 && argv != NULL && optstr != NULL && tbl != NULL, "getopt_long: arguments valid");
	/* CHECKED precondition: the two tables describe the same options */
	ENT(0) ENT(1) ENT(2) ENT(3) ENT(4) ENT(5) ENT(6) ENT(7) ENT(8) ENT(9) ENT(10) ENT(11)
	if (!done && tbl[12].name == NULL) done = 1;
	__CPROVER_assert(done && n >= 1, "getopt_long: long-option table has 1..12 entries (limit of this model)");
#ifdef VERIF_GETOPT_STOP
	__CPROVER_assert(0, "VERIF_REACH_END getopt_long reached");
	__CPROVER_assume(0);
#endif
	if (g_getopt_calls < 1000) g_getopt_calls++;
	if (nondet_bool()) {
		int oi = nondet_int();
		__CPROVER_assume(oi >= 1 && oi <= argc);
		optind = oi;
		return -1;
	}
	if (nondet_bool())
		return '?';
	k = nondet_uint();
	__CPROVER_assume(k < n);
	optarg = tbl[k].has_arg == required_argument ? (char *)"arg" : NULL;
	return tbl[k].val;
}

/* ---- C library: no token byte is modelled ---- */
int strcmp(const char *a, const char *b) { return nondet_int(); }
size_t strlen(const char *s) { return nondet_size_t(); }
size_t strcspn(const char *s, const char *rej)
{
	size_t n = nondet_size_t();
	__CPROVER_assume(n < ROOM(s));
	return n;
}
char *fgets(char *s, int size, FILE *fp)
{
	__CPROVER_assert(size >= 2 && __CPROVER_w_ok(s, (size_t)size), "fgets: buffer writable");
	if (nondet_bool())
		return NULL;
	s[size - 1] = 0;
	return s;
}
int verif_printf(void) { return 0; }

/* ---- libjwt as the tools see it ---- */
struct jwt_builder { int dummy; };
jwt_builder_t *jwt_builder_new(void) { return nondet_bool() ? NULL : malloc(sizeof(struct jwt_builder)); }
void jwt_builder_free(jwt_builder_t *b) { free(b); }
struct jwt_checker { int dummy; };
struct jwk_set { int dummy; };
jwt_checker_t *jwt_checker_new(void) { return nondet_bool() ? NULL : malloc(sizeof(struct jwt_checker)); }
void jwt_checker_free(jwt_checker_t *c) { free(c); }
int jwt_checker_verify(jwt_checker_t *c, const char *token)
{
	__CPROVER_assert(c != NULL, "jwt_checker_verify: checker non-NULL");
	__CPROVER_assume(g_tok_calls < 0xffffffffffffffffULL);	/* ASSUMED: fewer than 2^64 tokens in one run */
	g_tok_calls++;
	g_tok_last = token;
	if (nondet_bool()) {
		int r = nondet_int();
		__CPROVER_assume(r != 0);
		g_tok_bad++;
		return r;
	}
	return 0;
}
const char *jwt_checker_error_msg(const jwt_checker_t *c) { return ""; }
int jwt_checker_setkey(jwt_checker_t *c, const jwt_alg_t alg, const jwk_item_t *key) { return nondet_int(); }
int jwt_checker_setcb(jwt_checker_t *c, jwt_callback_t cb, void *ctx) { return nondet_int(); }
jwk_set_t *jwks_create_fromfile(const char *file_name) { return nondet_bool() ? NULL : malloc(sizeof(struct jwk_set)); }
void jwks_free(jwk_set_t *s) { free(s); }
int jwks_error(const jwk_set_t *s) { return nondet_int(); }
const char *jwks_error_msg(const jwk_set_t *s) { return ""; }
const jwk_item_t *jwks_item_get(const jwk_set_t *s, size_t i) { return nondet_bool() ? NULL : (const jwk_item_t *)s; }
int jwks_item_error(const jwk_item_t *it) { return nondet_int(); }
const char *jwks_item_error_msg(const jwk_item_t *it) { return ""; }
jwt_alg_t jwks_item_alg(const jwk_item_t *it) { jwt_alg_t a = (jwt_alg_t)nondet_int(); __CPROVER_assume(a >= JWT_ALG_NONE && a < JWT_ALG_INVAL); return a; }
jwt_alg_t jwt_str_alg(const char *s) { jwt_alg_t a = (jwt_alg_t)nondet_int(); __CPROVER_assume(a >= JWT_ALG_NONE && a <= JWT_ALG_INVAL); return a; }
const char *jwt_alg_str(jwt_alg_t a) { return "x"; }
