/* native replay for C11 / C08 on a very long base64url text: 'A' repeated g_last_strlen times (from the
 * counterexample; default 2^32 + 4; only the low 32 bits matter to an int, longer values are replayed at
 * 2^32 + (n mod 2^32)).  jwt_base64uri_decode() must decode all of it or reject it; a result that is the
 * decoding of a PREFIX reproduces (the JWK member "k" of an oct key would silently become a 3-byte key). */
#include <jwt.h>
#include "jwt-private.h"
#include "replay.h"
int main(int argc, char **argv)
{
	r_init(argc, argv);
	unsigned long long n = strtoull(r_str("g_last_strlen", "4294967300"), NULL, 0);
	if (n > (1ULL << 33)) n = (1ULL << 32) + (n & 0xffffffffULL);
	n &= ~3ULL;					/* a multiple of 4: no padding question */
	if (n < (1ULL << 31)) R_NOT("text of %llu characters: nothing wraps", n);
	char *s = malloc(n + 1);
	if (!s) R_NOT("cannot allocate %llu bytes", n);
	memset(s, 'A', n); s[n] = 0;
	int len = -1;
	void *r = jwt_base64uri_decode(s, &len);
	printf("text of %llu characters (as int: %d): result %s, length %d (all of it would be %llu octets)\n", n, (int)n, r ? "non-NULL" : "NULL", len, 3 * (n / 4));
	if (r != NULL && (unsigned long long)len != 3 * (n / 4))
		R_REPRODUCED("jwt_base64uri_decode decoded a prefix of the text (%d octets) and reported success", len);
	R_NOT("rejected or fully decoded");
}
