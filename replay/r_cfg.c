/* native replay for the configuration functions (C04 time_leeway, C10 time_offset): public API */
#include <jwt.h>
#include "jwt-private.h"
#include "replay.h"
int main(int argc, char **argv)
{
	r_init(argc, argv);
	int leeway = !strcmp(r_str("fn", "leeway"), "leeway");
	jwt_claims_t claim = (jwt_claims_t)r_long(leeway ? "IN_tl_claim" : "IN_to_claim", JWT_CLAIM_EXP);
	long secs = r_long(leeway ? "IN_tl_secs" : "IN_to_secs", 0);
	long old = r_long(leeway ? "IN_tl_old" : "IN_to_old", 0);
	long claims, want; int ret;
	if (leeway) { jwt_checker_t *c = jwt_checker_new(); c->c.claims = old; ret = jwt_checker_time_leeway(c, claim, secs); claims = c->c.claims;
		want = (claim == JWT_CLAIM_EXP || claim == JWT_CLAIM_NBF) ? (secs < 0 ? (old & ~claim) : (old | claim)) : old; }
	else { jwt_builder_t *b = jwt_builder_new(); b->c.claims = old; ret = jwt_builder_time_offset(b, claim, secs); claims = b->c.claims;
		want = (claim == JWT_CLAIM_EXP || claim == JWT_CLAIM_NBF) ? (secs <= 0 ? (old & ~claim) : (old | claim)) : old; }
	printf("%s(claim=0x%x, secs=%ld) on mask 0x%lx -> ret=%d mask=0x%lx, documented mask 0x%lx\n", leeway ? "jwt_checker_time_leeway" : "jwt_builder_time_offset",
	       claim, secs, old, ret, claims, want);
	if (claims != want) R_REPRODUCED("the enable/disable bookkeeping disagrees with the documentation");
	R_NOT("agrees");
}
