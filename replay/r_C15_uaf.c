/* native replay for the jansson liveness obligation in __setter (C15 / C17): a JSON-typed set under
 * a name jansson refuses (a byte that is not valid UTF-8) makes json_object_set_new() fail -- and, as
 * documented, drop the value it was handed.  libjwt must not touch that value again.  The child
 * runs with an allocator (public jwt_set_alloc, which libjwt also installs into jansson) that
 * gives every block its own pages and makes them inaccessible on free: a second decref of the
 * released value dies with SIGSEGV, which reproduces. */
#include <jwt.h>
#include "replay.h"
#include <unistd.h>
#include <stdint.h>
#include <sys/mman.h>
#include <sys/wait.h>
#define PG 4096UL
static void *g_malloc(size_t n)
{
	size_t pages = (n + 16 + PG - 1) / PG;
	char *m = mmap(NULL, pages * PG, PROT_READ | PROT_WRITE, MAP_PRIVATE | MAP_ANONYMOUS, -1, 0);
	if (m == MAP_FAILED) return NULL;
	*(size_t *)m = pages;
	return m + 16;
}
static void g_free(void *p)
{
	if (!p) return;
	char *m = (char *)p - 16;
	mprotect(m, *(size_t *)m * PG, PROT_NONE);	/* any later access faults */
}
int main(int argc, char **argv)
{
	r_init(argc, argv);
	fflush(stdout);
	pid_t pid = fork();
	if (pid == 0) {
		jwt_set_alloc(g_malloc, g_free);
		jwt_builder_t *b = jwt_builder_new();
		if (!b) _exit(3);
		jwt_value_t v;
		jwt_set_SET_JSON(&v, "\xff", "{\"a\":1}");
		jwt_value_error_t r = jwt_builder_claim_set(b, &v);
		_exit(r == JWT_VALUE_ERR_NONE ? 4 : 0);
	}
	int st = 0; waitpid(pid, &st, 0);
	if (WIFSIGNALED(st)) R_REPRODUCED("jwt_builder_claim_set(JSON value, name \"\\xff\") died with signal %d: the value json_object_set_new() had already released was released again", WTERMSIG(st));
	if (WEXITSTATUS(st) == 4) R_REPRODUCED("a name jansson refuses was accepted");
	R_NOT("refused without touching released memory (child exit %d)", WEXITSTATUS(st));
}
