/* native replay for C19: a checker callback that returns 0 and leaves key and
 * algorithm alone must not change the verdict, whatever it does to the token
 * object.  Public API, unsigned (alg none) tokens, clock interposed. */
#include <jwt.h>
#include "jwt-private.h"
#include "replay.h"
static time_t fake_now = 1700000000;
time_t time(time_t *t) { if (t) *t = fake_now; return fake_now; }
static int mode;
static int cb(jwt_t *jwt, jwt_config_t *config)
{
	jwt_value_t v;
	switch (mode) {
	case 1: jwt_claim_del(jwt, "exp"); break;
	case 2: jwt_claim_del(jwt, NULL); break;			/* delete all */
	case 3: jwt_set_SET_INT(&v, "exp", 4000000000L); v.replace = 1; jwt_claim_set(jwt, &v); break;
	case 4: jwt_set_SET_STR(&v, "iss", "expected"); v.replace = 1; jwt_claim_set(jwt, &v); break;
	case 5: jwt_claim_del(jwt, "nbf"); break;
	}
	return 0;
}
static char *b64url(const char *s) { char *o = NULL; jwt_base64uri_encode(&o, s, (int)strlen(s)); return o; }
static int verify(const char *payload, int with_cb, int m, int want_iss)
{
	char tok[1024];
	snprintf(tok, sizeof(tok), "%s.%s.", b64url("{\"alg\":\"none\"}"), b64url(payload));
	jwt_checker_t *c = jwt_checker_new();
	if (want_iss) jwt_checker_claim_set(c, JWT_CLAIM_ISS, "expected");
	mode = m;
	if (with_cb) jwt_checker_setcb(c, cb, NULL);
	int r = jwt_checker_verify(c, tok);
	jwt_checker_free(c);
	return r;
}
int main(int argc, char **argv)
{
	r_init(argc, argv);
	struct { const char *what, *payload; int mode, iss; } t[] = {
		{"callback deletes exp of an expired token", "{\"exp\":1000}", 1, 0},
		{"callback deletes all claims of an expired token", "{\"exp\":1000}", 2, 0},
		{"callback replaces exp of an expired token", "{\"exp\":1000}", 3, 0},
		{"callback sets the expected iss on a token with another iss", "{\"iss\":\"evil\"}", 4, 1},
		{"callback deletes nbf of a not-yet-valid token", "{\"nbf\":4000000000}", 5, 0},
	};
	int bad = 0;
	for (unsigned i = 0; i < sizeof(t) / sizeof(t[0]); i++) {
		int without = verify(t[i].payload, 0, 0, t[i].iss), with = verify(t[i].payload, 1, t[i].mode, t[i].iss);
		printf("%-60s verdict without callback=%d, with callback=%d%s\n", t[i].what, without, with,
		       (without != 0) != (with != 0) ? "   <-- the callback bent the verdict" : "");
		bad |= (without != 0) != (with != 0);
	}
	if (bad) R_REPRODUCED("a callback returning 0 with key/alg untouched changed the outcome of verification");
	R_NOT("verdicts agree");
}
