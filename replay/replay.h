/* replay.h -- helpers for native counterexample replay drivers.
 * A driver is run as:  replay IN_a=1 IN_b=255 ... [mode=...]
 * exit 1 + a line starting with REPRODUCED when the real code violates the
 * property on that input; exit 0 + NOT-REPRODUCED otherwise. */
#ifndef VERIF_REPLAY_H
#define VERIF_REPLAY_H
#include <stdio.h>
#include <stdlib.h>
#include <string.h>
static int r_argc; static char **r_argv;
static void r_init(int argc, char **argv) { r_argc = argc; r_argv = argv; }
static const char *r_str(const char *name, const char *def)
{
	size_t n = strlen(name);
	for (int i = 1; i < r_argc; i++)
		if (!strncmp(r_argv[i], name, n) && r_argv[i][n] == '=')
			return r_argv[i] + n + 1;
	return def;
}
static int r_has(const char *name) { return r_str(name, NULL) != NULL; }
static long r_long(const char *name, long def)
{
	const char *s = r_str(name, NULL);
	if (!s) return def;
	/* cbmc prints e.g. 255, 255l, 255ul, 'A', TRUE/FALSE */
	if (!strcmp(s, "TRUE")) return 1;
	if (!strcmp(s, "FALSE")) return 0;
	return strtol(s, NULL, 0);
}
#define R_REPRODUCED(...) do { printf("REPRODUCED: "); printf(__VA_ARGS__); printf("\n"); exit(1); } while (0)
#define R_NOT(...) do { printf("NOT-REPRODUCED: "); printf(__VA_ARGS__); printf("\n"); exit(0); } while (0)
#endif
