/* native replay for C07 on the public loaders that measure the text themselves
 * (jwks_load, jwks_create): the text of g_vj_len_a characters (from the counterexample; default
 * 2^32 + 7) is loaded once through the wrapper and once through jwks_load_strn with its true
 * length.  The wrapper must behave as if it had been handed the whole text: a different error
 * flag or item count reproduces (e.g. a text that is NOT JSON gains an item because only its
 * first (int)length bytes were parsed). */
#include <jwt.h>
#include "replay.h"
int main(int argc, char **argv)
{
	r_init(argc, argv);
	const char *s0 = r_str("g_last_strlen", r_str("g_vj_len_a", "4294967303"));
	unsigned long long n = strtoull(s0, NULL, 0);
	/* only the low 32 bits of the length decide what an int receives: a longer text from the
	 * counterexample is replayed at 2^32 + (n mod 2^32) to keep the allocation below 9 GB */
	if (n > (1ULL << 33)) n = (1ULL << 32) + (n & 0xffffffffULL);
	const char *fn = r_str("fn", "load");
	if (n < 2 || n > (1ULL << 34)) R_NOT("length %llu outside what this driver builds", n);
	char *s = malloc(n + 1);
	if (!s) R_NOT("cannot allocate %llu bytes", n);
	long long m = (int)n;			/* what an int receives */
	memset(s, 'x', n); s[n] = 0;
	if (m >= 2 && (unsigned long long)m < n) {	/* the first m bytes are JSON, the whole text is not */
		memset(s, ' ', m); s[0] = '{'; s[m - 1] = '}';
	} else {				/* the whole text is JSON: {} and blanks */
		memset(s, ' ', n); s[0] = '{'; s[1] = '}';
	}
	jwk_set_t *ref = jwks_load_strn(NULL, s, n);
	jwk_set_t *got = !strcmp(fn, "create") ? jwks_create(s) : jwks_load(NULL, s);
	int re = ref ? jwks_error(ref) : -1, ge = got ? jwks_error(got) : -1;
	long rc = ref ? (long)jwks_item_count(ref) : -1, gc = got ? (long)jwks_item_count(got) : -1;
	printf("text of %llu characters (as int: %lld): true length -> error=%d items=%ld ; jwks_%s -> error=%d items=%ld\n", n, m, re, rc, fn, ge, gc);
	if (re != ge || rc != gc)
		R_REPRODUCED("jwks_%s does not hand the text's length to the loader (int truncation of strlen)", fn);
	R_NOT("same outcome");
}
