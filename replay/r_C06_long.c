/* native replay for C06 on very long tokens: a token of g_last_strlen characters (from the
 * counterexample; default 2^32 + 15) without any dot is handed to jwt_checker_verify() in a child
 * process whose allocator (installed with the public jwt_set_alloc) places every small block
 * right in front of an inaccessible page, the few alignment bytes in between filled with 'x'.
 * jwt_parse() must report "no dot"; if it scans beyond its copy of the token the child dies with
 * SIGSEGV, which reproduces (an out-of-bounds read the default allocator would hide). */
#include <jwt.h>
#include "replay.h"
#include <unistd.h>
#include <sys/mman.h>
#include <sys/wait.h>
static void *g_malloc(size_t n)
{
	if (n == 0 || n > 4096) return malloc(n);
	size_t pg = 4096;
	char *m = mmap(NULL, 2 * pg, PROT_READ | PROT_WRITE, MAP_PRIVATE | MAP_ANONYMOUS, -1, 0);
	if (m == MAP_FAILED) return NULL;
	memset(m, 'x', pg);
	mprotect(m + pg, pg, PROT_NONE);
	return m + ((pg - n) & ~(size_t)15);
}
static void g_free(void *p) { (void)p; }	/* never reused: keeps the guard pages in place */
int main(int argc, char **argv)
{
	r_init(argc, argv);
	unsigned long long n = strtoull(r_str("g_last_strlen", "4294967311"), NULL, 0);
	if (n > (1ULL << 33)) n = (1ULL << 32) + (n & 0xffffffffULL);	/* only the low 32 bits matter to an int */
	if (n < (1ULL << 31)) R_NOT("token of %llu characters: nothing wraps", n);
	char *tok = malloc(n + 1);
	if (!tok) R_NOT("cannot allocate %llu bytes", n);
	memset(tok, 'x', n); tok[n] = 0;
	fflush(stdout);
	pid_t pid = fork();
	if (pid == 0) {
		jwt_set_alloc(g_malloc, g_free);
		jwt_checker_t *c = jwt_checker_new();
		if (!c) _exit(3);
		int r = jwt_checker_verify(c, tok);
		_exit(r != 0 && jwt_checker_error(c) ? 0 : 4);
	}
	int st = 0; waitpid(pid, &st, 0);
	printf("token of %llu characters without a dot (strlen + 1 as int: %d)\n", n, (int)(n + 1));
	if (WIFSIGNALED(st)) R_REPRODUCED("jwt_checker_verify died with signal %d: jwt_parse read beyond its %d-byte copy of the token", WTERMSIG(st), (int)(n + 1));
	if (WEXITSTATUS(st) == 4) R_REPRODUCED("a token without dots was not rejected");
	R_NOT("rejected without touching memory outside the copy (child exit %d)", WEXITSTATUS(st));
}
