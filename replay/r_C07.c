/* native replay for C07 (arbitrary JWK input): JWK-shaped documents in which one
 * member has an unexpected JSON type, loaded through the public API in a child
 * process; a crash (signal) or a keyring that is neither an error-with-message
 * nor a usable key reproduces the violation. */
#include <jwt.h>
#include "jwt-private.h"
#include "replay.h"
#include <unistd.h>
#include <sys/wait.h>
static const char *RSA_N = "0vx7agoebGcQSuuPiLJXZptN9nndrQmbXEps2aiAFbWhM78LhWx4cbbfAAtVT86zwu1RK7aPFFxuhDR1L6tSoc_BJECPebWKRXjBZCiFV4n3oknjhMstn64tZ_2W-5JsGY4Hc5n9yBXArwl93lqt7_RN5w6Cf0h4QyQ5v-65YGjQR0_FDW2QvzqY368QQMicAtaSqzs8KJZgnYb9c7d0zgdAZHzu6qMQvRL5hajrn1n91CbOpbISD08qNLyrdkt-bFTWhAI4vMQFh6WeZu0fM4lFd2NcRwr3XPksINHaQ-G_xBniIqbw0Ls1jF44-csFCur-kEgU8awapJzKnqDKgw";
static int try_doc(const char *what, const char *doc)
{
	fflush(stdout);
	pid_t pid = fork();
	if (pid == 0) {
		jwk_set_t *ks = jwks_create(doc);
		if (!ks) _exit(3);
		const jwk_item_t *it = jwks_item_get(ks, 0);
		if (jwks_error(ks)) _exit(jwks_error_msg(ks)[0] ? 0 : 4);
		if (!it) _exit(5);
		if (jwks_item_error(it)) _exit(jwks_item_error_msg(it)[0] ? 0 : 6);
		_exit(jwks_item_kty(it) != JWK_KEY_TYPE_NONE ? 0 : 7);
	}
	int st = 0; waitpid(pid, &st, 0);
	int bad = WIFSIGNALED(st) || (WIFEXITED(st) && WEXITSTATUS(st) != 0);
	printf("%-34s %s\n", what, WIFSIGNALED(st) ? "CRASH (signal)   <-- violates C07" : WEXITSTATUS(st) ? "ill-formed keyring   <-- violates C07" : "ok (error item with message, or usable key)");
	return bad;
}
int main(int argc, char **argv)
{
	r_init(argc, argv);
	static const char *types[] = { "null", "5", "true", "[]", "{}", "\"RS256\"", "\"\"" };
	static const char *members[] = { "alg", "n", "e", "d", "use", "key_ops", "kid", "crv", "x", "y", "k" };
	int bad = 0; char doc[4096], what[128];
	for (unsigned m = 0; m < sizeof(members) / sizeof(members[0]); m++)
		for (unsigned t = 0; t < sizeof(types) / sizeof(types[0]); t++) {
			const char *kty[] = { "RSA", "EC", "OKP", "oct" };
			for (int k = 0; k < 4; k++) {
				snprintf(doc, sizeof(doc), "{\"kty\":\"%s\",\"n\":\"%s\",\"e\":\"AQAB\",\"%s\":%s}", kty[k], RSA_N, members[m], types[t]);
				snprintf(what, sizeof(what), "kty %s, member %s = %s", kty[k], members[m], types[t]);
				int b = try_doc(what, doc);
				bad |= b;
			}
		}
	if (bad) R_REPRODUCED("a JWK with an unexpectedly typed member crashes the loader or yields an ill-formed item");
	R_NOT("every document yields an error item with a message or a usable key");
}
