/* r_C20_verify.c -- native demonstration for the C20 unit on tools/jwt-verify.c:
 * runs the REAL main() of the tool (working tree) in child processes and looks at the
 * exit status the parent receives.
 *   (a) 256 tokens that all fail to verify  -> status must be non-zero;
 *   (b) the same valid alg-none token with  --algorithm none  and with  -a none  -> same status (0).
 * Prints REPRODUCED and exits 1 when the real tool breaks either. */
#include <sys/wait.h>
#include <fcntl.h>
#define main tool_main
#include "../tools/jwt-verify.c"
#undef main
#include "replay.h"

static int run_tool(int argc, char **argv)
{
	fflush(NULL);
	pid_t pid = fork();
	if (pid == 0) {
		int fd = open("/dev/null", O_WRONLY);
		dup2(fd, 1); dup2(fd, 2);
		optind = 1;
		tool_main(argc, argv);
		_exit(99);
	}
	int st = 0;
	waitpid(pid, &st, 0);
	return WIFEXITED(st) ? WEXITSTATUS(st) : 1000 + WTERMSIG(st);
}

int main(int argc, char **argv)
{
	int bad = 0;
	/* (a) */
	static char *av[300];
	int n = 0;
	av[n++] = "jwt-verify"; av[n++] = "-q";
	for (int i = 0; i < 256; i++) av[n++] = "not.a.token";
	av[n] = NULL;
	int st = run_tool(n, av);
	printf("256 failing tokens: exit status %d\n", st);
	if (st == 0) { printf("  -> the parent sees SUCCESS although every token failed\n"); bad = 1; }

	/* (b) */
	jwt_builder_t *b = jwt_builder_new();
	char *tok = jwt_builder_generate(b);
	if (tok == NULL) { printf("cannot generate an alg-none token\n"); return 2; }
	char *l[] = { "jwt-verify", "-q", "--algorithm", "none", tok, NULL };
	char *s[] = { "jwt-verify", "-q", "-a", "none", tok, NULL };
	int sl = run_tool(5, l), ss = run_tool(5, s);
	printf("alg-none token: --algorithm none -> %d,  -a none -> %d\n", sl, ss);
	if (sl != ss || sl != 0) { printf("  -> the two documented spellings disagree / a valid token is not accepted\n"); bad = 1; }
	if (bad) { printf("REPRODUCED\n"); return 1; }
	printf("not reproduced\n");
	return 0;
}
