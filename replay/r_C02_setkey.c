/* native replay for the setkey admission table (C02/C10): public API */
#include <jwt.h>
#include "jwt-private.h"
#include "spec.h"
#include "replay.h"
int main(int argc, char **argv)
{
	r_init(argc, argv);
	jwk_item_t key; memset(&key, 0, sizeof(key));
	int haskey = (int)r_long("IN_sk_haskey", 0);
	jwt_alg_t alg = (jwt_alg_t)r_long("IN_sk_alg", 0);
	key.alg = (jwt_alg_t)r_long("IN_sk_keyalg", 0);
	key.is_private_key = (int)r_long("IN_sk_priv", 1);
	int builder = !strcmp(r_str("side", "checker"), "builder");
	int ok = SPEC_SETKEY_OK(alg, haskey, key.alg) && (!builder || !haskey || key.is_private_key);
	int ret; int err; const char *msg;
	if (builder) { jwt_builder_t *b = jwt_builder_new(); ret = jwt_builder_setkey(b, alg, haskey ? &key : NULL); err = jwt_builder_error(b); msg = jwt_builder_error_msg(b);
		if (ret == 0 && (b->c.alg != alg || b->c.key != (haskey ? &key : NULL))) R_REPRODUCED("setkey succeeded but did not store the pair"); }
	else { jwt_checker_t *c = jwt_checker_new(); ret = jwt_checker_setkey(c, alg, haskey ? &key : NULL); err = jwt_checker_error(c); msg = jwt_checker_error_msg(c);
		if (ret == 0 && (c->c.alg != alg || c->c.key != (haskey ? &key : NULL))) R_REPRODUCED("setkey succeeded but did not store the pair"); }
	printf("%s setkey(alg=%d, key=%s keyalg=%d private=%d) -> %d error=%d msg='%s'; table says %s\n", builder ? "builder" : "checker",
	       alg, haskey ? "yes" : "NULL", key.alg, key.is_private_key, ret, err, msg, ok ? "admit" : "refuse");
	if ((ret == 0) != ok) R_REPRODUCED("setkey disagrees with the documented admission table");
	if (ret != 0 && (!err || !msg[0])) R_REPRODUCED("refusal without flag/message");
	R_NOT("agrees with the table");
}
