/* native replay for C14 (error reporting of jwt_checker_verify): public API.
 * The counterexamples of the parse units are JSON shapes of the header
 * ("alg" absent / of a non-string type / header not an object); the driver
 * builds a token of each shape and checks
 *     ret != 0  <=>  error flag set  and then  message non-empty.   */
#include <jwt.h>
#include "jwt-private.h"
#include "replay.h"
static char *b64url(const char *s)
{
	char *out = NULL;
	jwt_base64uri_encode(&out, s, (int)strlen(s));
	return out;
}
static int check(const char *what, const char *token)
{
	jwt_checker_t *c = jwt_checker_new();
	int ret = jwt_checker_verify(c, token);
	int flag = jwt_checker_error(c);
	const char *msg = jwt_checker_error_msg(c);
	int bad = ((ret != 0) != (flag != 0)) || (flag && !msg[0]) || (!flag && msg[0]);
	printf("%-28s ret=%d flag=%d msg='%s'%s\n", what, ret, flag, msg, bad ? "   <-- violates C14" : "");
	jwt_checker_free(c);
	return bad;
}
int main(int argc, char **argv)
{
	r_init(argc, argv);
	static const char *hdr[][2] = {
		{"alg absent", "{\"typ\":\"JWT\"}"}, {"alg null", "{\"alg\":null}"}, {"alg number", "{\"alg\":5}"},
		{"alg true", "{\"alg\":true}"}, {"alg array", "{\"alg\":[\"none\"]}"}, {"alg object", "{\"alg\":{}}"},
		{"header is an array", "[\"alg\",\"none\"]"}, {"alg unknown", "{\"alg\":\"XX999\"}"}, {"alg none (valid)", "{\"alg\":\"none\"}"},
	};
	int bad = 0;
	for (unsigned i = 0; i < sizeof(hdr) / sizeof(hdr[0]); i++) {
		char tok[512];
		snprintf(tok, sizeof(tok), "%s.%s.", b64url(hdr[i][1]), b64url("{}"));
		bad |= check(hdr[i][0], tok);
	}
	bad |= check("no dots", "abc");
	bad |= check("one dot", "abc.def");
	bad |= check("bad payload", "eyJhbGciOiJub25lIn0.!!!!.");
	if (bad) R_REPRODUCED("jwt_checker_verify's return value and error flag/message disagree");
	R_NOT("flag, message and return value agree on every malformed-token class tried");
}
