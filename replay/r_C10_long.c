/* native replay for C10 on a very large claim set: a builder is given one string claim of g_last_strlen
 * characters (from the counterexample; default 2^32; only the low 32 bits matter to an int, longer values are
 * replayed at 2^32 + (n mod 2^32)) and generates an unsigned token.  jwt_encode() measures the JSON dump with
 * (int)strlen(): the token that comes back must carry the whole claim set (payload segment of about 4/3 of the
 * dump) or the call must fail; a token whose payload segment is the encoding of a PREFIX of the dump reproduces. */
#include <jwt.h>
#include "replay.h"
int main(int argc, char **argv)
{
	r_init(argc, argv);
	unsigned long long n = strtoull(r_str("g_last_strlen", "4294967296"), NULL, 0);
	if (n > (1ULL << 33)) n = (1ULL << 32) + (n & 0xffffffffULL);
	if (n < (1ULL << 32)) n = 1ULL << 32;	/* the wrap to a small positive length needs 4 GiB */
	char *v = malloc(n + 1);
	if (!v) R_NOT("cannot allocate %llu bytes", n);
	memset(v, 'x', n); v[n] = 0;
	jwt_builder_t *b = jwt_builder_new();
	jwt_value_t jv;
	jwt_set_SET_STR(&jv, "a", v);
	if (!b || jwt_builder_claim_set(b, &jv) != JWT_VALUE_ERR_NONE) R_NOT("could not store the claim (error %d)", b ? (int)jv.error : -1);
	jwt_builder_enable_iat(b, 0);
	char *tok = jwt_builder_generate(b);
	if (tok == NULL) R_NOT("generate refused: %s", jwt_builder_error_msg(b));
	const char *d1 = strchr(tok, '.'), *d2 = d1 ? strchr(d1 + 1, '.') : NULL;
	unsigned long long plen = (d1 && d2) ? (unsigned long long)(d2 - d1 - 1) : 0;
	printf("claim of %llu characters: token returned, payload segment of %llu characters (the whole claim set needs about %llu)\n", n, plen, (n + 8) / 3 * 4);
	if (plen < n) R_REPRODUCED("jwt_builder_generate returned a token whose payload is the encoding of a prefix of the claims (strlen of the JSON dump cast to int)");
	R_NOT("payload segment covers the claim set");
}
