/* native replay for the ECDSA signature-length rule (C01/C12): a valid ES256
 * signature (r||s, 2x32 bytes) is rewritten as 0^16||r||0^16||s (2x48 bytes):
 * an EXTENDED signature string that the statement says must be rejected on
 * every provider ("ECDSA r||s length must equal 2 * field size"). */
#include <jwt.h>
#include "jwt-private.h"
#include "replay.h"
static char *readfile(const char *p) { FILE *f = fopen(p, "r"); if (!f) return NULL; static char b[8192]; size_t n = fread(b, 1, sizeof(b) - 1, f); b[n] = 0; fclose(f); return b; }
int main(int argc, char **argv)
{
	r_init(argc, argv);
	char path[512];
	snprintf(path, sizeof(path), "%s/tests/keys/ec_key_prime256v1.json", r_str("repo", "/repo"));
	char *js = readfile(path);
	if (!js) R_NOT("key file not found");
	jwk_set_t *ks = jwks_create(js); const jwk_item_t *key = jwks_item_get(ks, 0);
	jwt_set_crypto_ops("openssl");
	jwt_builder_t *b = jwt_builder_new(); jwt_builder_setkey(b, JWT_ALG_ES256, key);
	char *tok = jwt_builder_generate(b);
	if (!tok) R_NOT("could not generate");
	char *dot = strrchr(tok, '.'); int sl = 0;
	unsigned char *sig = jwt_base64uri_decode(dot + 1, &sl);
	if (!sig || sl != 64) R_NOT("unexpected signature length %d", sl);
	unsigned char ext[96]; memset(ext, 0, sizeof(ext));
	memcpy(ext + 16, sig, 32); memcpy(ext + 48 + 16, sig + 32, 32);
	char *e64 = NULL; jwt_base64uri_encode(&e64, (char *)ext, 96);
	char forged[4096]; snprintf(forged, sizeof(forged), "%.*s.%s", (int)(dot - tok), tok, e64);
	int bad = 0;
	const char *prov[] = { "openssl", "gnutls" };
	for (int i = 0; i < 2; i++) {
		jwt_set_crypto_ops(prov[i]);
		jwt_checker_t *c = jwt_checker_new(); jwt_checker_setkey(c, JWT_ALG_ES256, key);
		int r0 = jwt_checker_verify(c, tok);
		int r1 = jwt_checker_verify(c, forged);
		printf("%-8s genuine token: %d; token with the signature re-padded to 96 bytes: %d (%s)\n", prov[i], r0, r1, jwt_checker_error_msg(c));
		if (r1 == 0) { bad = 1; printf("   <-- an extended signature string is accepted\n"); }
	}
	if (bad) R_REPRODUCED("ECDSA signature of the wrong length accepted");
	R_NOT("both providers reject");
}
