/* native replay for C09: runs the REAL __check_hmac / __check_key_bits of the
 * working tree on the counterexample (IN_alg, IN_bits) and evaluates the
 * postcondition of contract_C09_* with the same spec macros. */
#include "jwt.c"   /* the working tree's libjwt/jwt.c, found through -I$REPO/libjwt */
#include "spec.h"
#include "replay.h"
int main(int argc, char **argv)
{
	r_init(argc, argv);
	const char *fn = r_str("fn", "hmac");
	jwt_t jwt; jwk_item_t key;
	memset(&jwt, 0, sizeof(jwt)); memset(&key, 0, sizeof(key));
	jwt.key = &key;
	jwt.alg = (jwt_alg_t)r_long("IN_alg", JWT_ALG_HS256);
	key.bits = (size_t)r_long("IN_bits", 0);
	key.kty = (jwk_key_type_t)r_long("IN_kty", 0);
	int ret = !strcmp(fn, "hmac") ? __check_hmac(&jwt) : __check_key_bits(&jwt);
	int ok = !strcmp(fn, "hmac") ? SPEC_HMAC_OK(jwt.alg, key.bits) : SPEC_ASYM_OK(jwt.alg, key.bits);
	printf("fn=%s alg=%d (%s) bits=%zu -> ret=%d error=%d msg='%s' spec_ok=%d\n", fn, jwt.alg,
	       jwt_alg_str(jwt.alg) ? jwt_alg_str(jwt.alg) : "?", key.bits, ret, jwt.error, jwt.error_msg, ok);
	if (ret == 0 && !ok)
		R_REPRODUCED("key below the floor accepted for %s: %zu bits", jwt_alg_str(jwt.alg), key.bits);
	if (ret != 0 && ok)
		R_REPRODUCED("key at/above the floor refused for %s: %zu bits", jwt_alg_str(jwt.alg), key.bits);
	if (ret != 0 && (!jwt.error || !jwt.error_msg[0]) && (!strcmp(fn, "hmac") ? SPEC_IS_HS(jwt.alg) : SPEC_IS_ASYM(jwt.alg)))
		R_REPRODUCED("refusal without error flag/message");
	R_NOT("real code agrees with the spec on this input");
}
