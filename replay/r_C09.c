/* native replay for C09 (key-strength floor) and the C02 key-family gate:
 * runs the REAL __check_hmac / __check_key_bits / jwt_sign of the working tree
 * on the counterexample (IN_alg, IN_bits, IN_kty) with a recording provider
 * table and evaluates the contract's postcondition with the same spec macros. */
#include "jwt.c"   /* the working tree's libjwt/jwt.c, found through -I$REPO/libjwt */
#include "spec.h"
#include "replay.h"
static int ops_called;
static int rec_hmac(jwt_t *jwt, char **out, unsigned int *len, const char *str, unsigned int n)
{ ops_called++; *out = jwt_malloc(64); memset(*out, 0x5a, 64); *len = 32; return 0; }
static int rec_pem(jwt_t *jwt, char **out, unsigned int *len, const char *str, unsigned int n)
{ ops_called++; *out = jwt_malloc(64); memset(*out, 0x5a, 64); *len = 64; return 0; }
static int rec_verify(jwt_t *jwt, const char *h, unsigned int hl, unsigned char *sig, int sl) { ops_called++; return 0; }
static struct jwt_crypto_ops rec_ops = { .name = "recorder", .provider = JWT_CRYPTO_OPS_ANY, .sign_sha_hmac = rec_hmac,
	.sign_sha_pem = rec_pem, .verify_sha_pem = rec_verify };
int main(int argc, char **argv)
{
	r_init(argc, argv);
	const char *fn = r_str("fn", "hmac");
	int c02 = !strcmp(r_str("prop", "C09"), "C02");
	jwt_t jwt; jwk_item_t key;
	memset(&jwt, 0, sizeof(jwt)); memset(&key, 0, sizeof(key));
	jwt.key = &key;
	jwt.alg = (jwt_alg_t)r_long("IN_alg", JWT_ALG_HS256);
	key.bits = (size_t)r_long("IN_bits", 0);
	key.kty = (jwk_key_type_t)r_long("IN_kty", 0);
	jwt_ops = &rec_ops;
	int ret, ok;
	if (!strcmp(fn, "hmac")) {
		ret = __check_hmac(&jwt);
		ok = c02 ? (SPEC_IS_HS(jwt.alg) && key.kty == JWK_KEY_TYPE_OCT) : SPEC_HMAC_OK(jwt.alg, key.bits);
	} else if (!strcmp(fn, "keybits")) {
		ret = __check_key_bits(&jwt);
		ok = c02 ? (SPEC_IS_ASYM(jwt.alg) && key.kty == SPEC_KTY_FOR(jwt.alg)) : SPEC_ASYM_OK(jwt.alg, key.bits);
	} else {
		char *out = NULL; unsigned int len = 0;
		ret = jwt_sign(&jwt, &out, &len, "a.b", 3);
		ok = c02 ? (SPEC_IS_SIGNING(jwt.alg) && key.kty == SPEC_KTY_FOR(jwt.alg))
			 : (SPEC_HMAC_OK(jwt.alg, key.bits) || SPEC_ASYM_OK(jwt.alg, key.bits));
	}
	printf("fn=%s alg=%d (%s) bits=%zu kty=%d -> ret=%d error=%d msg='%s' provider ops called=%d; spec admits=%d\n", fn, jwt.alg,
	       jwt_alg_str(jwt.alg) ? jwt_alg_str(jwt.alg) : "?", key.bits, key.kty, ret, jwt.error, jwt.error_msg, ops_called, ok);
	if (ret == 0 && !ok)
		R_REPRODUCED("%s: key (kty %d, %zu bits) accepted for %s", c02 ? "wrong key family" : "below the floor", key.kty, key.bits, jwt_alg_str(jwt.alg));
	if (!ok && ops_called)
		R_REPRODUCED("provider operation invoked with an inadmissible key");
	if (!c02 && ret != 0 && SPEC_KTY_FOR(jwt.alg) == key.kty && (!strcmp(fn, "hmac") ? SPEC_HMAC_OK(jwt.alg, key.bits) : !strcmp(fn, "keybits") ? SPEC_ASYM_OK(jwt.alg, key.bits) : 0))
		R_REPRODUCED("key at/above the floor refused for %s: %zu bits", jwt_alg_str(jwt.alg), key.bits);
	if (ret != 0 && (!jwt.error || !jwt.error_msg[0]) && SPEC_IS_SIGNING(jwt.alg) && strcmp(fn, "sign") == 0)
		R_REPRODUCED("refusal without error flag/message");
	R_NOT("real code agrees with the spec on this input");
}
