/* r_C20_ec.c -- native demonstration for unit C20.key2jwk.process_ec_key: feeds freshly
 * generated EC keys to the REAL process_ec_key() of tools/key2jwk.c (working tree) and looks
 * at the length of the base64url members x, y, d it emits.  RFC 7518 6.2.1.2: full-width
 * octet strings: 32 / 48 / 66 octets = 43 / 64 / 88 base64url characters. */
#define main tool_main
#include "../tools/key2jwk.c"
#undef main
#include <openssl/ec.h>
#include "replay.h"

static int check(const char *curve, int want, int tries)
{
	for (int t = 0; t < tries; t++) {
		EVP_PKEY *k = EVP_EC_gen(curve);
		if (k == NULL) { printf("cannot generate %s key\n", curve); return -1; }
		json_t *jwk = json_object();
		process_ec_key(k, 1, jwk);
		const char *m[] = { "x", "y", "d" };
		for (int i = 0; i < 3; i++) {
			const char *v = json_string_value(json_object_get(jwk, m[i]));
			if (v == NULL || (int)strlen(v) != want) {
				printf("%s key #%d: member %s has %d base64url characters, RFC 7518 requires %d: %s\n",
				       curve, t, m[i], v ? (int)strlen(v) : -1, want, v ? v : "(missing)");
				json_decref(jwk); EVP_PKEY_free(k);
				return 1;
			}
		}
		json_decref(jwk);
		EVP_PKEY_free(k);
	}
	printf("%s: %d keys, all members full width\n", curve, tries);
	return 0;
}

int main(int argc, char **argv)
{
	int bad = 0;
	bad |= check("P-521", 88, 64) == 1;
	bad |= check("P-256", 43, 1500) == 1;
	bad |= check("P-384", 64, 600) == 1;
	if (bad) { printf("REPRODUCED\n"); return 1; }
	printf("not reproduced\n");
	return 0;
}
