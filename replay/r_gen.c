/* native replay for the jwt_builder_generate clauses (C03 F3, C14 F6, C17 F7): public API. */
#include <jwt.h>
#include "jwt-private.h"
#include "replay.h"
static time_t fake_now = 1700000000;
time_t time(time_t *t) { if (t) *t = fake_now; return fake_now; }
static const jwk_item_t *cb_key; static int cb_mode;
static int cb(jwt_t *jwt, jwt_config_t *config)
{
	if (cb_mode == 1) config->key = cb_key;			/* sets only the key */
	if (cb_mode == 2) config->alg = JWT_ALG_NONE;		/* resets the algorithm, keeps the key */
	return 0;
}
static const char *OCT = "{\"kty\":\"oct\",\"alg\":\"HS256\",\"k\":\"AAECAwQFBgcICQoLDA0ODxAREhMUFRYXGBkaGxwdHh8\"}";
static const char *OCT_FOO = "{\"kty\":\"oct\",\"alg\":\"FOO\",\"k\":\"AAECAwQFBgcICQoLDA0ODxAREhMUFRYXGBkaGxwdHh8\"}";
static int payload_has(const char *tok, const char *name)
{
	const char *p = strchr(tok, '.'); if (!p) return 0; p++;
	const char *e = strchr(p, '.'); if (!e) return 0;
	char seg[2048]; size_t n = (size_t)(e - p); if (n >= sizeof(seg)) return 0;
	memcpy(seg, p, n); seg[n] = 0;
	int len; char *js = jwt_base64uri_decode(seg, &len); if (!js) return 0; js[len] = 0;
	char pat[32]; snprintf(pat, sizeof(pat), "\"%s\":", name);
	return strstr(js, pat) != NULL;
}
static int fail_at, alloc_count;
static void *my_malloc(size_t n) { if (++alloc_count == fail_at) return NULL; return malloc(n); }
static void my_free(void *p) { free(p); }
int main(int argc, char **argv)
{
	r_init(argc, argv);
	int bad = 0;
	jwk_set_t *ks = jwks_create(OCT); const jwk_item_t *key = jwks_item_get(ks, 0);
	/* F3: callback-selected key, algorithm left at its default */
	for (int mode = 1; mode <= 2; mode++) {
		jwt_builder_t *b = jwt_builder_new();
		if (mode == 2) jwt_builder_setkey(b, JWT_ALG_NONE, key);
		cb_key = key; cb_mode = mode; jwt_builder_setcb(b, cb, NULL);
		char *t = jwt_builder_generate(b);
		int unsignedtok = t && t[strlen(t) - 1] == '.';
		printf("callback %s: token %s%s\n", mode == 1 ? "sets only config->key" : "resets config->alg, key kept",
		       t ? (unsignedtok ? "UNSIGNED (alg none): " : "signed: ") : "refused: ", t ? t : jwt_builder_error_msg(b));
		if (unsignedtok) { bad = 1; printf("   <-- C03: a builder given a key emitted an unsigned token\n"); }
		jwt_builder_free(b);
	}
	/* F6: key whose alg attribute is unknown */
	{
		jwk_set_t *k2 = jwks_create(OCT_FOO); const jwk_item_t *kf = jwks_item_get(k2, 0);
		jwt_builder_t *b = jwt_builder_new();
		int r = jwt_builder_setkey(b, JWT_ALG_NONE, kf);
		char *t = r == 0 ? jwt_builder_generate(b) : "(setkey refused)";
		printf("key with alg FOO: setkey=%d generate=%s error flag=%d msg='%s'\n", r, t ? t : "NULL", jwt_builder_error(b), jwt_builder_error_msg(b));
		if (r == 0 && t == NULL && (!jwt_builder_error(b) || !jwt_builder_error_msg(b)[0])) { bad = 1; printf("   <-- C14: NULL without error flag/message\n"); }
	}
	/* F7: the k-th allocation fails; a returned token must still carry exp */
	jwt_set_alloc(my_malloc, my_free);
	for (fail_at = 1; fail_at < 80; fail_at++) {
		alloc_count = -1000000;	/* configuration itself is fault free */
		jwt_builder_t *b = jwt_builder_new();
		if (!b) continue;
		jwt_builder_setkey(b, JWT_ALG_NONE, key);
		jwt_builder_time_offset(b, JWT_CLAIM_EXP, 300);
		alloc_count = 0;
		char *t = jwt_builder_generate(b);
		int n = alloc_count;
		alloc_count = -1000000;
		if (t && !payload_has(t, "exp")) { bad = 1; printf("allocation %d fails: token WITHOUT exp returned: %s\n   <-- C17: wrong success\n", fail_at, t); }
		if (t && !payload_has(t, "iat")) { bad = 1; printf("allocation %d fails: token WITHOUT iat returned\n   <-- C17: wrong success\n", fail_at); }
		if (n < fail_at) break;
	}
	if (bad) R_REPRODUCED("jwt_builder_generate violates its contract");
	R_NOT("generate behaves");
}
