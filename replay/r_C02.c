/* native replay for C02/C03 (policy decision): the REAL __verify_config_post
 * of the working tree on the counterexample's configuration. */
#include "jwt-verify.c"
#include "spec.h"
#include "replay.h"
time_t time(time_t *t) { if (t) *t = 1700000000; return 1700000000; }
int main(int argc, char **argv)
{
	r_init(argc, argv);
	jwt_t jwt; jwt_checker_t ck; jwk_item_t key; jwt_config_t cfg;
	memset(&jwt, 0, sizeof(jwt)); memset(&ck, 0, sizeof(ck)); memset(&key, 0, sizeof(key));
	jwt.claims = json_object(); jwt.headers = json_object();
	ck.c.payload = json_object(); ck.c.headers = json_object(); ck.c.claims = JWT_CLAIM_EXP | JWT_CLAIM_NBF;
	jwt.checker = &ck;
	int haskey = (int)r_long("IN_key_present", 0);
	key.alg = (jwt_alg_t)r_long("IN_key_alg", 0);
	cfg.key = haskey ? &key : NULL; cfg.alg = (jwt_alg_t)r_long("IN_cfg_alg", 0); cfg.ctx = NULL;
	jwt.alg = (jwt_alg_t)r_long("IN_hdr_alg", 0);
	unsigned sig_len = (unsigned)r_long("IN_sig_len", 0);
	int ret = __verify_config_post(&jwt, &cfg, sig_len);
	printf("config.alg=%d key=%s key.alg=%d header alg=%d sig_len=%u -> ret=%d error=%d msg='%s'\n", cfg.alg,
	       haskey ? "present" : "absent", haskey ? key.alg : -1, jwt.alg, sig_len, ret, jwt.error, jwt.error_msg);
	if (ret == 0 && sig_len > 0) {
		if (!haskey) R_REPRODUCED("C03/C02: signed token let through without a key");
		if (jwt.alg == JWT_ALG_NONE) R_REPRODUCED("C03: signed token with alg none let through");
		if (jwt.alg != SPEC_PINNED_ALG(cfg.alg, 1, key.alg))
			R_REPRODUCED("C02: header alg %d accepted although the pinned algorithm is %d", jwt.alg, SPEC_PINNED_ALG(cfg.alg, 1, key.alg));
	}
	if (ret == 0 && sig_len == 0 && (haskey || cfg.alg != JWT_ALG_NONE || jwt.alg != JWT_ALG_NONE))
		R_REPRODUCED("C03: unsigned token accepted with a key/alg configured or a non-none header alg");
	if (ret != 0 && (!jwt.error || !jwt.error_msg[0])) R_REPRODUCED("C14: refusal without flag/message");
	R_NOT("real code agrees with the statement on this input");
}
