/* native replay for C08 completeness of EC import: fresh keys on P-256 / P-384 / P-521 / secp256k1
 * are written as JWKs (public and private) with x, y, d (a) in full field width (RFC 7518 6.2.1.2)
 * and (b) without leading zero octets (as older key2jwk versions and the checked-in test keys do;
 * keys are drawn until one coordinate is shorter than the other) and imported with jwks_create().
 * A well-formed key that comes back with an error, without PEM or as the wrong kind reproduces. */
#include <jwt.h>
#include "replay.h"
#include <openssl/evp.h>
#include <openssl/ec.h>
#include <openssl/bn.h>
#include <openssl/core_names.h>
static void b64u(const unsigned char *in, int n, char *out)
{
	static const char t[] = "ABCDEFGHIJKLMNOPQRSTUVWXYZabcdefghijklmnopqrstuvwxyz0123456789-_";
	int i, j = 0;
	for (i = 0; i + 2 < n; i += 3) { out[j++] = t[in[i] >> 2]; out[j++] = t[((in[i] & 3) << 4) | (in[i + 1] >> 4)]; out[j++] = t[((in[i + 1] & 15) << 2) | (in[i + 2] >> 6)]; out[j++] = t[in[i + 2] & 63]; }
	if (n - i == 1) { out[j++] = t[in[i] >> 2]; out[j++] = t[(in[i] & 3) << 4]; }
	if (n - i == 2) { out[j++] = t[in[i] >> 2]; out[j++] = t[((in[i] & 3) << 4) | (in[i + 1] >> 4)]; out[j++] = t[(in[i + 1] & 15) << 2]; }
	out[j] = 0;
}
static int enc(const BIGNUM *b, int width, char *out)	/* width 0: minimal length */
{
	unsigned char buf[80];
	int n = width ? BN_bn2binpad(b, buf, width) : BN_bn2bin(b, buf);
	if (n == 0) { buf[0] = 0; n = 1; }
	b64u(buf, n, out);
	return n;
}
static int bad;
static void try_import(const char *crv, const char *x, const char *y, const char *d, const char *what)
{
	char doc[1024];
	if (d) snprintf(doc, sizeof doc, "{\"kty\":\"EC\",\"crv\":\"%s\",\"x\":\"%s\",\"y\":\"%s\",\"d\":\"%s\"}", crv, x, y, d);
	else snprintf(doc, sizeof doc, "{\"kty\":\"EC\",\"crv\":\"%s\",\"x\":\"%s\",\"y\":\"%s\"}", crv, x, y);
	jwk_set_t *s = jwks_create(doc);
	const jwk_item_t *it = s ? jwks_item_get(s, 0) : NULL;
	if (!it || jwks_item_error(it) || !jwks_item_pem(it) || jwks_item_is_private(it) != (d != NULL)) {
		bad++;
		printf("%s %s %s key NOT imported: %s   <-- violates C08\n", crv, what, d ? "private" : "public", it ? jwks_item_error_msg(it) : "(no item)");
	}
	jwks_free(s);
}
int main(int argc, char **argv)
{
	r_init(argc, argv);
	static const struct { const char *crv, *ossl; int width; } C[] = { { "P-256", "prime256v1", 32 }, { "P-384", "secp384r1", 48 }, { "P-521", "secp521r1", 66 }, { "secp256k1", "secp256k1", 32 } };
	for (int c = 0; c < 4; c++) {
		int have_full = 0, have_uneven = 0;
		for (int k = 0; k < 4000 && !(have_full && have_uneven); k++) {
			EVP_PKEY *pk = EVP_PKEY_Q_keygen(NULL, NULL, "EC", C[c].ossl);
			BIGNUM *x = NULL, *y = NULL, *d = NULL;
			if (!pk) break;
			EVP_PKEY_get_bn_param(pk, OSSL_PKEY_PARAM_EC_PUB_X, &x); EVP_PKEY_get_bn_param(pk, OSSL_PKEY_PARAM_EC_PUB_Y, &y); EVP_PKEY_get_bn_param(pk, OSSL_PKEY_PARAM_PRIV_KEY, &d);
			char sx[120], sy[120], sd[120];
			if (!have_full) {
				enc(x, C[c].width, sx); enc(y, C[c].width, sy); enc(d, C[c].width, sd);
				try_import(C[c].crv, sx, sy, NULL, "fixed-width"); try_import(C[c].crv, sx, sy, sd, "fixed-width");
				have_full = 1;
			}
			if (!have_uneven && BN_num_bytes(x) != BN_num_bytes(y)) {
				enc(x, 0, sx); enc(y, 0, sy); enc(d, 0, sd);
				try_import(C[c].crv, sx, sy, NULL, "minimal-length (x and y of different length)"); try_import(C[c].crv, sx, sy, sd, "minimal-length (x and y of different length)");
				have_uneven = 1;
			}
			BN_free(x); BN_free(y); BN_clear_free(d); EVP_PKEY_free(pk);
		}
	}
	if (bad) R_REPRODUCED("%d well-formed EC JWK(s) were refused", bad);
	R_NOT("every well-formed EC JWK tried was imported");
}
