/* native replay for C07/C08 on a very long kid: a JWK whose kid has g_last_strlen characters
 * (from the counterexample; default 2^32 + 16; only the low 32 bits matter to an int, longer
 * values are replayed at 2^32 + (n mod 2^32)) is loaded with jwks_load_strn() in a child process
 * whose small allocations sit right in front of an inaccessible page.  The kid must come back
 * complete (or the failure be reported on the item); a crash (the copy ran over the block that
 * was sized from the wrapped length) or a truncated / missing kid without error reproduces. */
#include <jwt.h>
#include "replay.h"
#include <unistd.h>
#include <sys/mman.h>
#include <sys/wait.h>
static void *g_malloc(size_t n)
{
	if (n == 0 || n > 4096) return malloc(n);
	size_t pg = 4096;
	char *m = mmap(NULL, 2 * pg, PROT_READ | PROT_WRITE, MAP_PRIVATE | MAP_ANONYMOUS, -1, 0);
	if (m == MAP_FAILED) return NULL;
	mprotect(m + pg, pg, PROT_NONE);
	return m + ((pg - n) & ~(size_t)15);
}
static void g_free(void *p) { (void)p; }
int main(int argc, char **argv)
{
	r_init(argc, argv);
	unsigned long long n = strtoull(r_str("g_last_strlen", "4294967312"), NULL, 0);
	if (n > (1ULL << 33)) n = (1ULL << 32) + (n & 0xffffffffULL);
	if (n < (1ULL << 31)) R_NOT("kid of %llu characters: nothing wraps", n);
	static const char pre[] = "{\"kty\":\"oct\",\"k\":\"AAECAwQFBgcICQoLDA0ODxAREhMUFRYXGBkaGxwdHh8\",\"kid\":\"", post[] = "\"}";
	size_t total = sizeof(pre) - 1 + n + sizeof(post) - 1;
	char *doc = malloc(total + 1);
	if (!doc) R_NOT("cannot allocate %zu bytes", total);
	memcpy(doc, pre, sizeof(pre) - 1); memset(doc + sizeof(pre) - 1, 'x', n); memcpy(doc + sizeof(pre) - 1 + n, post, sizeof(post));
	fflush(stdout);
	pid_t pid = fork();
	if (pid == 0) {
		jwt_set_alloc(g_malloc, g_free);
		jwk_set_t *s = jwks_load_strn(NULL, doc, total);
		if (!s || jwks_error(s)) _exit(5);
		const jwk_item_t *it = jwks_item_get(s, 0);
		if (!it) _exit(6);
		if (jwks_item_error(it)) _exit(0);			/* reported */
		const char *kid = jwks_item_kid(it);
		_exit(kid && strlen(kid) == n ? 0 : 4);
	}
	int st = 0; waitpid(pid, &st, 0);
	printf("JWK with a kid of %llu characters (as int: %d)\n", n, (int)n);
	if (WIFSIGNALED(st)) R_REPRODUCED("loading the key died with signal %d: the kid was copied into a block sized from the wrapped length", WTERMSIG(st));
	if (WEXITSTATUS(st) == 4) R_REPRODUCED("the key was imported without error but its kid is missing or truncated");
	R_NOT("child exit %d", WEXITSTATUS(st));
}
