/* native replay for C17 on the key-loading path: the k-th allocation made while
 * loading a JWK / JWKS fails (allocator installed with jwt_set_alloc), in a child
 * process; a crash, or a "successful" keyring that lost a key, reproduces. */
#include <jwt.h>
#include "jwt-private.h"
#include "replay.h"
#include <unistd.h>
#include <sys/wait.h>
static int fail_at, count;
static void *my_malloc(size_t n) { if (++count == fail_at) return NULL; return malloc(n); }
static void my_free(void *p) { free(p); }
static const char *DOC = "{\"keys\":[{\"kty\":\"oct\",\"kid\":\"a\",\"k\":\"AAECAwQFBgcICQoLDA0ODxAREhMUFRYXGBkaGxwdHh8\"},"
			 "{\"kty\":\"oct\",\"kid\":\"b\",\"alg\":\"HS256\",\"k\":\"AAECAwQFBgcICQoLDA0ODxAREhMUFRYXGBkaGxwdHh8\"}]}";
int main(int argc, char **argv)
{
	r_init(argc, argv);
	int bad = 0, total = 0;
	jwt_set_alloc(my_malloc, my_free);
	for (fail_at = 1; fail_at < 200; fail_at++) {
		fflush(stdout);
		pid_t pid = fork();
		if (pid == 0) {
			count = 0;
			jwk_set_t *ks = jwks_create(DOC);
			int n = count;
			if (n < fail_at) _exit(100);			/* no more allocations to fail */
			if (!ks) _exit(0);				/* failure reported through NULL */
			if (jwks_error(ks)) _exit(0);			/* failure reported on the set */
			size_t items = jwks_item_count(ks);
			int errs = jwks_error_any(ks);
			_exit(items == 2 || errs ? 0 : 9);		/* silently lost a key */
		}
		int st = 0; waitpid(pid, &st, 0);
		if (WIFEXITED(st) && WEXITSTATUS(st) == 100) break;
		total++;
		if (WIFSIGNALED(st)) { bad = 1; printf("allocation %d fails while loading the keyring: CRASH (signal %d)   <-- violates C17\n", fail_at, WTERMSIG(st)); }
		else if (WEXITSTATUS(st) == 9) { bad = 1; printf("allocation %d fails: keyring reports success but lost a key   <-- violates C17\n", fail_at); }
	}
	printf("%d single-allocation faults injected\n", total);
	if (bad) R_REPRODUCED("allocation failure while loading keys is not handled");
	R_NOT("every injected allocation failure is reported");
}
