/* native replay for C04: the REAL __verify_claims / __verify_config_post of
 * the working tree, real jansson, clock interposed by this file's time(). */
#include "jwt-verify.c"	/* working tree's libjwt/jwt-verify.c via -I$REPO/libjwt */
#include "replay.h"
static time_t fake_now;
time_t time(time_t *t) { if (t) *t = fake_now; return fake_now; }

static json_t *mk(int type, long long iv, const char *sv)
{
	switch (type) {
	case JSON_OBJECT: return json_object();
	case JSON_ARRAY: return json_array();
	case JSON_STRING: return json_string(sv ? sv : "x");
	case JSON_INTEGER: return json_integer(iv);
	case JSON_REAL: return json_real(1.5);
	case JSON_TRUE: return json_true();
	case JSON_FALSE: return json_false();
	default: return json_null();
	}
}

static int run(const char *name, jwt_claims_t bit, int has, int type, long long iv, const char *actual,
	       const char *expected, long claims, long lee_exp, long lee_nbf, int via_post, unsigned sig_len)
{
	jwt_t jwt; jwt_checker_t ck; jwt_config_t cfg = { NULL, JWT_ALG_NONE, NULL };
	memset(&jwt, 0, sizeof(jwt)); memset(&ck, 0, sizeof(ck));
	jwt.claims = json_object(); jwt.headers = json_object();
	ck.c.payload = json_object(); ck.c.headers = json_object();
	ck.c.claims = claims; ck.c.exp = lee_exp; ck.c.nbf = lee_nbf;
	jwt.checker = &ck;
	if (has) json_object_set_new(jwt.claims, name, mk(type, iv, actual));
	if (expected) json_object_set_new(ck.c.payload, name, json_string(expected));
	int failed;
	if (via_post) {
		failed = __verify_config_post(&jwt, &cfg, sig_len) != 0;
	} else {
		failed = (__verify_claims(&jwt) & bit) != 0;
	}
	return failed;
}

int main(int argc, char **argv)
{
	r_init(argc, argv);
	int via_post = !strcmp(r_str("fn", "claims"), "post");
	fake_now = r_long("IN_now", 1700000000);
	long lee_exp = r_long("IN_leeway_exp", 0), lee_nbf = r_long("IN_leeway_nbf", 0);
	long claims = r_long("IN_claims", JWT_CLAIM_EXP | JWT_CLAIM_NBF);
	int key0 = (int)r_long("IN_key0", 'e');
	int has = (int)r_long("IN_tok_has", 1), type = (int)r_long("IN_tok_type", JSON_INTEGER);
	long long iv = r_long("IN_tok_int", 0);
	unsigned sig_len = (unsigned)r_long("IN_sig_len", 0);
	int bad = 0;
	if (key0 == 'e' || key0 == 'n') {
		const char *name = key0 == 'e' ? "exp" : "nbf";
		jwt_claims_t bit = key0 == 'e' ? JWT_CLAIM_EXP : JWT_CLAIM_NBF;
		int on = (claims & bit) != 0;
		int ok_val = key0 == 'e' ? (iv > fake_now - lee_exp) : (iv <= fake_now + lee_nbf);
		int want_fail = on && has && (type != JSON_INTEGER || !ok_val);
		int got = run(name, bit, has, type, iv, NULL, NULL, claims, lee_exp, lee_nbf, via_post, sig_len);
		printf("%s: now=%ld leeway=%ld claim %s type=%d value=%lld check %s -> rejected=%d, statement says rejected=%d\n",
		       name, (long)fake_now, key0 == 'e' ? lee_exp : lee_nbf, has ? "present" : "absent", type, iv,
		       on ? "on" : "off", got, want_fail);
		if (via_post ? (want_fail && !got) : (got != want_fail)) bad = 1;
	} else {
		const char *name = key0 == 'i' ? "iss" : key0 == 's' ? "sub" : "aud";
		jwt_claims_t bit = key0 == 'i' ? JWT_CLAIM_ISS : key0 == 's' ? JWT_CLAIM_SUB : JWT_CLAIM_AUD;
		/* the string contents are not part of the counterexample: try the
		 * pairs the property lists */
		static const char *pairs[][2] = { {"abc", "abc"}, {"abc", "ab"}, {"ab", "abc"}, {"abc", "ABC"},
						  {"abc", ""}, {"", "abc"}, {"\xc3\xa9", "\xc3\xa9"}, {"abc", "abd"} };
		for (unsigned i = 0; i < sizeof(pairs) / sizeof(pairs[0]); i++) {
			for (int t = 0; t < 3; t++) {	/* actual: string / absent / integer */
				int want_fail = !(t == 0 && !strcmp(pairs[i][0], pairs[i][1]));
				int got = run(name, bit, t != 1, t == 2 ? JSON_INTEGER : JSON_STRING, 7, pairs[i][1], pairs[i][0],
					      claims | bit, lee_exp, lee_nbf, via_post, sig_len);
				if (via_post ? (want_fail && !got) : (got != want_fail)) {
					printf("%s expected='%s' actual=%s'%s' -> rejected=%d, statement says %d\n", name, pairs[i][0],
					       t == 1 ? "(absent)" : t == 2 ? "(integer)" : "", pairs[i][1], got, want_fail);
					bad = 1;
				}
			}
		}
	}
	if (bad) R_REPRODUCED("claim check disagrees with the property statement");
	R_NOT("real code agrees with the statement on this input");
}
