#!/usr/bin/env python3
"""units/defs.py -- the unit definitions of every property, as Python data.
Running this file writes units/Cxx.json, which bin/check reads.

A unit = one real function of /repo, one named contract, its callees replaced
by THEIR contracts, one cbmc run.  See DESIGN.md sections 1 and 3."""
import json, os

HERE = os.path.dirname(os.path.abspath(__file__))
REACH = '__CPROVER_assert(0, "VERIF_REACH_END");'
VS = 'char *VS(size_t n){ char *s = malloc(n + 1); __CPROVER_assume(s != NULL); s[n] = 0; return s; }'
LIBC = ["stubs/libc.c", "stubs/ghost.c"]
CONV = ["--conversion-check"]

def common_tu(side):
    return {"file": "libjwt/jwt-common.c", "prefix_includes": ["<stdlib.h>", "<string.h>", "<jwt.h>", '"jwt-private.h"'],
            "defines": ["JWT_" + side]}

def U(name, function, tu, contracts, entry_body, enforce, replace=(), stubs=(), defines=(), expect=(), kind="proof",
      flags=CONV, timeout=300, replay=None, pre=(), **kw):
    entry = "h_" + "".join(ch if ch.isalnum() else "_" for ch in name)
    hc = list(pre) + ["void %s(void){ %s %s }" % (entry, entry_body, REACH)]
    u = {"name": name, "function": function, "kind": kind, "tu": tu if isinstance(tu, list) else [tu],
         "defines": list(defines), "contracts": contracts if isinstance(contracts, list) else [contracts],
         "stubs": list(stubs), "entry": entry, "harness_code": hc, "enforce": enforce, "replace": list(replace),
         "flags": list(flags), "expect": list(expect), "timeout": timeout}
    if replay:
        u["replay"] = replay
    u.update(kw)
    return u

P = {}

# ---------------------------------------------------------------------------
# shared unit builders: the key-strength / key-family gate chain in jwt.c
# ---------------------------------------------------------------------------
JWT_C = "libjwt/jwt.c"
JWT_STUBS = LIBC + ["stubs/alloc.c"]

def gate_chain(prop, replay_fn=None, name_prefix=None):
    """__check_hmac, __check_key_bits, jwt_sign, _verify_sha_hmac, jwt_verify_sig
    under the clauses of `prop` (C09: strength floor, C02: key family)."""
    r = lambda fn: ({"driver": "replay/r_C09.c", "replace_tu": [JWT_C], "args": ["fn=" + fn, "prop=" + prop]})
    c = "contract_%s_" % prop
    np = name_prefix or prop
    tok = "jwt_t *jwt; size_t n; __CPROVER_assume(n < 0x10000000); char *tok = VS(n); unsigned hl; __CPROVER_assume(hl < n);"
    return [
        U(np + ".__check_hmac", "__check_hmac (libjwt/jwt.c)", JWT_C, "contracts/jwt_c.h",
          "jwt_t *jwt; __check_hmac(jwt);", "__check_hmac/%s__check_hmac" % c, stubs=LIBC, defines=["VERIF_TU_JWT"],
          expect=[c + "__check_hmac\\.postcondition\\.5"], timeout=120, replay=r("hmac")),
        U(np + ".__check_key_bits", "__check_key_bits (libjwt/jwt.c)", JWT_C, "contracts/jwt_c.h",
          "jwt_t *jwt; __check_key_bits(jwt);", "__check_key_bits/%s__check_key_bits" % c, stubs=LIBC, defines=["VERIF_TU_JWT"],
          expect=[c + "__check_key_bits\\.postcondition\\.5"], timeout=120, replay=r("keybits")),
        U(np + ".jwt_sign", "jwt_sign (libjwt/jwt.c)", JWT_C, "contracts/jwt_c.h",
          "OPS_TAKE_ADDRESSES(%s); jwt_t *jwt; char **out; unsigned int *len; const char *str; unsigned int n; jwt_sign(jwt,out,len,str,n);" % prop,
          "jwt_sign/%sjwt_sign" % c,
          replace=["__check_hmac/%s__check_hmac" % c, "__check_key_bits/%s__check_key_bits" % c],
          stubs=LIBC, defines=["VERIF_TU_JWT"],
          expect=[c + "jwt_sign\\.postcondition\\.7", c + "ops_sign_sha_hmac\\.precondition", c + "ops_sign_sha_pem\\.precondition"],
          replay=r("sign")),
        U(np + "._verify_sha_hmac", "_verify_sha_hmac (libjwt/jwt.c)", JWT_C, "contracts/jwt_c.h",
          "OPS_TAKE_ADDRESSES(%s); %s _verify_sha_hmac(jwt, tok, hl, tok + hl + 1);" % (prop, tok),
          "_verify_sha_hmac/%s_verify_sha_hmac" % c,
          replace=["jwt_sign/%sjwt_sign" % c, "jwt_base64uri_encode/contract_shape_jwt_base64uri_encode",
                   "jwt_strcmp/contract_shape_jwt_strcmp"],
          stubs=JWT_STUBS, defines=["VERIF_TU_JWT"], pre=[VS],
          expect=[c + "_verify_sha_hmac\\.postcondition\\.3", c + "jwt_sign\\.precondition"], replay=r("sign")),
        U(np + ".jwt_verify_sig", "jwt_verify_sig (libjwt/jwt.c)", JWT_C, "contracts/jwt_c.h",
          "OPS_TAKE_ADDRESSES(%s); %s jwt_verify_sig(jwt, tok, hl, tok + hl + 1);" % (prop, tok),
          "jwt_verify_sig/%sjwt_verify_sig" % c,
          replace=["_verify_sha_hmac/%s_verify_sha_hmac" % c, "__check_key_bits/%s__check_key_bits" % c,
                   "jwt_base64uri_decode/contract_shape_jwt_base64uri_decode"],
          stubs=JWT_STUBS, defines=["VERIF_TU_JWT"], pre=[VS],
          expect=[c + "jwt_verify_sig\\.postcondition\\.5", c + "ops_verify_sha_pem\\.precondition"], replay=r("sign")),
    ]

# ---------------------------------------------------------------------------
# __verify_config_post under the clauses of one property
# ---------------------------------------------------------------------------
VERIFY_C = "libjwt/jwt-verify.c"
VERIFY_STUBS = LIBC + ["stubs/time.c"]

def vcp(prop, replay):
    c = "contract_%s___verify_config_post" % prop
    return U(prop + ".__verify_config_post", "__verify_config_post (libjwt/jwt-verify.c)", VERIFY_C, "contracts/jwt_verify_c.h",
             "jwt_t *jwt; jwt_config_t *c; unsigned n; __verify_config_post(jwt, c, n);",
             "__verify_config_post/" + c, replace=["__verify_claims/contract_C04___verify_claims"],
             stubs=VERIFY_STUBS, defines=["VERIF_TU_JWT_VERIFY"],
             expect=[c + "\\.postcondition\\.3", "contract_C04___verify_claims\\.precondition"], replay=replay)

def vc(prop, replay=None):
    c = "contract_%s_jwt_verify_complete" % prop
    return U(prop + ".jwt_verify_complete", "jwt_verify_complete (libjwt/jwt-verify.c)", VERIFY_C, "contracts/jwt_verify_c.h",
             "OPS_TAKE_ADDRESSES(all); jwt_t *jwt; jwt_config_t *c; size_t n; __CPROVER_assume(n >= 1 && n < 0x10000000); char *tok = VS(n); unsigned pl; __CPROVER_assume(pl < n); jwt_verify_complete(jwt, c, tok, pl);",
             "jwt_verify_complete/" + c,
             replace=["__verify_config_post/contract_all___verify_config_post", "jwt_verify_sig/contract_all_jwt_verify_sig"],
             stubs=VERIFY_STUBS + ["stubs/alloc.c"], defines=["VERIF_TU_JWT_VERIFY"], pre=[VS],
             expect=[c + "\\.postcondition\\.6", "contract_all_jwt_verify_sig\\.precondition", "contract_all___verify_config_post\\.precondition"],
             replay=replay)

R_C02 = {"driver": "replay/r_C02.c", "replace_tu": [VERIFY_C]}
R_C04 = {"driver": "replay/r_C04.c", "replace_tu": [VERIFY_C]}

# =============================== C01 =======================================
def c01_chain():
    tok = "jwt_t *jwt; size_t n; __CPROVER_assume(n < 0x10000000); char *tok = VS(n); unsigned hl; __CPROVER_assume(hl < n);"
    return [
        U("C01.jwt_sign", "jwt_sign (libjwt/jwt.c)", JWT_C, "contracts/jwt_c.h",
          "OPS_TAKE_ADDRESSES(nogate); jwt_t *jwt; char **out; unsigned int *len; const char *str; unsigned int n; jwt_sign(jwt,out,len,str,n);",
          "jwt_sign/contract_C01_jwt_sign",
          replace=["__check_hmac/contract_C09___check_hmac", "__check_key_bits/contract_C09___check_key_bits"],
          stubs=LIBC, defines=["VERIF_TU_JWT"],
          expect=["contract_C01_jwt_sign\\.postcondition\\.8", "contract_nogate_ops_sign_sha_hmac\\.precondition"]),
        U("C01._verify_sha_hmac", "_verify_sha_hmac (libjwt/jwt.c)", JWT_C, "contracts/jwt_c.h",
          "OPS_TAKE_ADDRESSES(nogate); %s _verify_sha_hmac(jwt, tok, hl, tok + hl + 1);" % tok,
          "_verify_sha_hmac/contract_C01__verify_sha_hmac",
          replace=["jwt_sign/contract_C01_jwt_sign", "jwt_base64uri_encode/contract_shape_jwt_base64uri_encode",
                   "jwt_strcmp/contract_shape_jwt_strcmp"],
          stubs=JWT_STUBS, defines=["VERIF_TU_JWT"], pre=[VS],
          expect=["contract_C01__verify_sha_hmac\\.postcondition\\.6", "contract_C01_jwt_sign\\.precondition"]),
        U("C01.jwt_verify_sig", "jwt_verify_sig (libjwt/jwt.c)", JWT_C, "contracts/jwt_c.h",
          "OPS_TAKE_ADDRESSES(nogate); %s jwt_verify_sig(jwt, tok, hl, tok + hl + 1);" % tok,
          "jwt_verify_sig/contract_C01_jwt_verify_sig",
          replace=["_verify_sha_hmac/contract_C01__verify_sha_hmac", "__check_key_bits/contract_C09___check_key_bits",
                   "jwt_base64uri_decode/contract_shape_jwt_base64uri_decode"],
          stubs=JWT_STUBS, defines=["VERIF_TU_JWT"], pre=[VS],
          expect=["contract_C01_jwt_verify_sig\\.postcondition\\.6", "contract_nogate_ops_verify_sha_pem\\.precondition"]),
    ]
P["C01"] = {"property": "C01", "level": "proof", "units": c01_chain() + gate_chain("all", name_prefix="C01.all") + [
    vcp("all", R_C02), vc("C01")]}
P["C01"]["units"][-2]["name"] = "C01.all.__verify_config_post"

# =============================== C02 =======================================
def setkey_units(prop="C02"):
    us = []
    for side, fn in (("CHECKER", "jwt_checker"), ("BUILDER", "jwt_builder")):
        rp = {"driver": "replay/r_C02_setkey.c", "args": ["side=" + side.lower()]}
        us.append(U("%s.__setkey_check.%s" % (prop, side.lower()), "__setkey_check (libjwt/jwt-common.c as %s)" % fn,
                    common_tu(side), "contracts/jwt_common_c.h",
                    "verif_cmd_t *c; jwt_alg_t a; const jwk_item_t *k; __setkey_check(c, a, k);",
                    "__setkey_check/contract_C02___setkey_check", stubs=LIBC, defines=["VERIF_TU_" + side],
                    expect=["contract_C02___setkey_check\\.postcondition\\.2"], timeout=120, replay=rp))
        us.append(U("%s.setkey.%s" % (prop, side.lower()), "%s_setkey (libjwt/jwt-common.c)" % fn,
                    common_tu(side), "contracts/jwt_common_c.h",
                    "verif_cmd_t *c; jwt_alg_t a; const jwk_item_t *k; %s_setkey(c, a, k);" % fn,
                    "%s_setkey/contract_C02_setkey" % fn, replace=["__setkey_check/contract_C02___setkey_check"],
                    stubs=LIBC, defines=["VERIF_TU_" + side],
                    expect=["contract_C02_setkey\\.postcondition\\.2", "contract_C02___setkey_check\\.precondition"],
                    timeout=120, replay=rp))
    return us

P["C02"] = {"property": "C02", "level": "proof", "units": [
    vcp("C02", R_C02),
    U("C02.jwt_strcmp_exact", "jwt_strcmp (libjwt/jwt-memory.c)", "libjwt/jwt-memory.c", "contracts/jwt_memory_c.h",
      "size_t n1, n2; __CPROVER_assume(n1 < 0x10000000 && n2 < 8); char *a = VS(n1), *b = VS(n2); jwt_strcmp(a, b);",
      "jwt_strcmp/contract_exact_jwt_strcmp", stubs=["stubs/libc.c"], pre=[VS],
      loops={"jwt_strcmp": [{"loop_id": 0, "vars": ["i", "ret", "len1", "len2", "len_max", "str1", "str2"],
                             "assigns": "i, ret",
                             "invariants": ["0 <= i && i <= len_max", "len_max == (len1 >= len2 ? len1 : len2)", "len2 <= 7",
                                            "(ret == 0) == PREFIX_EQ(i)"],
                             "decreases": "len_max - i"}]},
      loop_macro_headers=["contracts/loopmacros_strcmp.h"],
      expect=["contract_exact_jwt_strcmp\\.postcondition\\.1", "jwt_strcmp\\.loop_invariant_step", "jwt_strcmp\\.loop_decreases"]),
    U("C02.jwt_str_alg", "jwt_str_alg (libjwt/jwt.c)", JWT_C, "contracts/jwt_c.h",
      "size_t n; __CPROVER_assume(n < 0x10000000); char *a = nondet_bool() ? NULL : VS(n); jwt_str_alg(a);",
      "jwt_str_alg/contract_C02_jwt_str_alg", replace=["jwt_strcmp/contract_exact_jwt_strcmp"],
      stubs=JWT_STUBS, defines=["VERIF_TU_JWT"], pre=[VS], object_bits=10, flags=[],
      expect=["contract_C02_jwt_str_alg\\.postcondition\\.3", "contract_exact_jwt_strcmp\\.precondition"]),
] + setkey_units() + gate_chain("C02")}

# =============================== C03 =======================================
P["C03"] = {"property": "C03", "level": "proof", "units": [vcp("C03", R_C02), vc("C03")]}

# =============================== C04 =======================================
P["C04"] = {"property": "C04", "level": "proof", "units": [
    U("C04.__verify_claims", "__verify_claims (libjwt/jwt-verify.c)", VERIFY_C, "contracts/jwt_verify_c.h",
      "jwt_t *jwt; __verify_claims(jwt);", "__verify_claims/contract_C04___verify_claims",
      replace=["jwt_claim_get/contract_C04_jwt_claim_get", "__check_str_claim/contract_C04___check_str_claim"],
      stubs=VERIFY_STUBS, defines=["VERIF_TU_JWT_VERIFY"],
      expect=["contract_C04___verify_claims\\.postcondition\\.1", "contract_C04___verify_claims\\.postcondition\\.2",
              "contract_C04_jwt_claim_get\\.precondition"], replay=dict(R_C04, args=["fn=claims"])),
    U("C04.__check_str_claim", "__check_str_claim (libjwt/jwt-verify.c)", VERIFY_C, "contracts/jwt_verify_c.h",
      "jwt_t *jwt; jwt_claims_t c; char *s; __check_str_claim(jwt, c, s);",
      "__check_str_claim/contract_C04___check_str_claim",
      replace=["jwt_claim_get/contract_C04_jwt_claim_get", "jwt_checker_claim_get/contract_C04_jwt_checker_claim_get"],
      stubs=VERIFY_STUBS, defines=["VERIF_TU_JWT_VERIFY"],
      expect=["contract_C04___check_str_claim\\.postcondition\\.2"], replay=dict(R_C04, args=["fn=claims"])),
    U("C04.jwt_claim_get", "jwt_claim_get -> __run_it -> __getter -> jwt_get_int/jwt_get_str (libjwt/jwt-setget.c)",
      "libjwt/jwt-setget.c", "contracts/jwt_verify_c.h", "jwt_t *jwt; jwt_value_t *v; jwt_claim_get(jwt, v);",
      "jwt_claim_get/contract_C04_jwt_claim_get", stubs=LIBC + ["stubs/jansson.c", "stubs/alloc.c"],
      expect=["contract_C04_jwt_claim_get\\.postcondition\\.2"]),
    U("C04.jwt_checker_claim_get", "jwt_checker_claim_get -> __run_it -> __getter (jwt-common.c as jwt-checker, jwt-setget.c)",
      common_tu("CHECKER"), "contracts/jwt_verify_c.h", "jwt_checker_t *c; jwt_claims_t t; jwt_checker_claim_get(c, t);",
      "jwt_checker_claim_get/contract_C04_jwt_checker_claim_get", stubs=LIBC + ["stubs/jansson.c", "stubs/alloc.c"],
      extra_sources=["libjwt/jwt-setget.c"], expect=["contract_C04_jwt_checker_claim_get\\.postcondition\\.1"]),
    vcp("C04", dict(R_C04, args=["fn=post"])),
    vc("C04"),
]}

# ====================== jwt_checker_verify (top level) =====================
TOP_STUBS = LIBC + ["stubs/time.c", "stubs/verify_top.c"]
TOP_CLAUSE_PROPS = [["C14", 2], ["C01", 1], ["C06", 2], ["C02", 4], ["C19", 2], ["C13", 1]]
def top(prop, replay=None, **kw):
    """the shared top-level unit: same definition whatever property asks for it"""
    c = "contract_all_jwt_checker_verify"
    kw.setdefault("clause_props", TOP_CLAUSE_PROPS)
    kw.setdefault("base_ensures", 2)
    return U("TOP.jwt_checker_verify", "jwt_checker_verify (libjwt/jwt-common.c as jwt-checker)", common_tu("CHECKER"),
             "contracts/jwt_common_c.h",
             "OPS_TAKE_ADDRESSES(all); void *volatile cbp = (void *)contract_cb_checker; jwt_checker_t *c; size_t n; __CPROVER_assume(n < 0x10000000); char *tok = nondet_bool() ? NULL : VS(n); jwt_checker_verify(c, tok);",
             "jwt_checker_verify/" + c,
             replace=["__setkey_check/contract_C02___setkey_check"],
             stubs=TOP_STUBS, defines=["VERIF_TU_CHECKER", "VERIF_STRCPY_ERRBUF"], pre=[VS], flags=[], object_bits=10, timeout=900,
             expect=[c + "\\.postcondition\\.2", "jwt_verify_complete\\.assertion", "contract_cb_checker\\.precondition"],
             replay=replay, **kw)

# ===================== jwt_builder_generate (top level) =====================
GEN_CLAUSE_PROPS = [["C14", 2], ["C03", 6], ["C10", 6], ["C13", 3], ["C17", 1]]
def gen_top(replay={"driver": "replay/r_gen.c"}):
    c = "contract_all_jwt_builder_generate"
    return U("TOP.jwt_builder_generate", "jwt_builder_generate (libjwt/jwt-common.c as jwt-builder)", common_tu("BUILDER"),
             "contracts/jwt_common_c.h",
             "void *volatile cbp = (void *)contract_cb_builder; jwt_builder_t *b; jwt_builder_generate(b);",
             "jwt_builder_generate/" + c, replace=["__setkey_check/contract_C02___setkey_check"],
             stubs=["stubs/libc.c", "stubs/ghost.c", "stubs/time.c", "stubs/generate_top.c"],
             defines=["VERIF_TU_BUILDER", "VERIF_STRCPY_ERRBUF"], flags=[], object_bits=10, timeout=900,
             expect=[c + "\\.postcondition\\.4", "contract_cb_builder\\.precondition", "jwt_encode_str\\.assertion"],
             clause_props=GEN_CLAUSE_PROPS, base_ensures=3, replay=replay)

# =============================== C11 =======================================
B64_C = "libjwt/base64.c"
P["C11"] = {"property": "C11", "level": "proof", "units": [
    U("C11.base64_encode.shape", "base64_encode (libjwt/base64.c)", B64_C, "contracts/base64_c.h",
      "unsigned n; __CPROVER_assume(n <= B64_IN_MAX); unsigned char *in = malloc(n); __CPROVER_assume(n == 0 || in != NULL); "
      "char *out = malloc((size_t)SPEC_ENC_LEN((size_t)n) + 1); __CPROVER_assume(out != NULL); base64_encode(in, n, out);",
      "base64_encode/contract_C11shape_base64_encode", stubs=["stubs/ghost.c"], defines=["VERIF_NO_JWT_OPS_DEF"],
      flags=["--conversion-check"],
      loops={"base64_encode": [{"loop_id": 0, "vars": ["i", "j", "s", "l", "c", "in", "inlen", "out"],
        "assigns": "i, j, s, l, c, __CPROVER_object_whole(out)",
        "invariants": ["i <= inlen", "s == (int)(i % 3)", "j == 4 * (i / 3) + (i % 3)"],
        "decreases": "inlen - i", "globals": {"g_b64_g": "g_b64_g"}}]},
      loop_macro_headers=["contracts/loopmacros_b64.h"],
      expect=["contract_C11shape_base64_encode\\.postcondition\\.1", "base64_encode\\.loop_invariant_step", "base64_encode\\.loop_decreases"],
      timeout=600),
    U("C11.base64_encode", "base64_encode (libjwt/base64.c)", B64_C, "contracts/base64_c.h",
      "unsigned n; __CPROVER_assume(n <= B64_IN_MAX); unsigned char *in = malloc(n); __CPROVER_assume(n == 0 || in != NULL); "
      "char *out = malloc((size_t)SPEC_ENC_LEN((size_t)n) + 1); __CPROVER_assume(out != NULL); base64_encode(in, n, out);",
      "base64_encode/contract_C11_base64_encode", stubs=["stubs/ghost.c"], defines=["VERIF_NO_JWT_OPS_DEF"],
      flags=[],
      loops={"base64_encode": [{"loop_id": 0, "vars": ["i", "j", "s", "l", "c", "in", "inlen", "out"],
        "assigns": "i, j, s, l, c, __CPROVER_object_whole(out)",
        "invariants": ["i <= inlen", "s == (int)(i % 3)", "j == 4 * (i / 3) + (i % 3)", "i == 0 || l == in[i - 1]",
            "(3 * g_b64_g + 2 < i) ==> (out[4 * g_b64_g] == SPEC_ENC0(in[3 * g_b64_g], in[3 * g_b64_g + 1], in[3 * g_b64_g + 2]) && "
            "out[4 * g_b64_g + 1] == SPEC_ENC1(in[3 * g_b64_g], in[3 * g_b64_g + 1], in[3 * g_b64_g + 2]) && "
            "out[4 * g_b64_g + 2] == SPEC_ENC2(in[3 * g_b64_g], in[3 * g_b64_g + 1], in[3 * g_b64_g + 2]) && "
            "out[4 * g_b64_g + 3] == SPEC_ENC3(in[3 * g_b64_g], in[3 * g_b64_g + 1], in[3 * g_b64_g + 2]))",
            "(i % 3 >= 1) ==> out[4 * (i / 3)] == SPEC_ENC0(in[3 * (i / 3)], 0, 0)",
            "(i % 3 == 2) ==> out[4 * (i / 3) + 1] == SPEC_ENC1(in[3 * (i / 3)], in[3 * (i / 3) + 1], 0)"],
        "decreases": "inlen - i", "globals": {"g_b64_g": "g_b64_g"}}]},
      loop_macro_headers=["contracts/loopmacros_b64.h"],
      expect=["contract_C11_base64_encode\\.postcondition\\.3", "base64_encode\\.loop_invariant_step", "base64_encode\\.loop_decreases"],
      timeout=3000, tier="thorough", checks="none", safety_unit="C11.base64_encode.shape"),
    U("C11.base64_decode", "base64_decode (libjwt/base64.c)", B64_C, "contracts/base64_c.h",
      "unsigned n; __CPROVER_assume(n <= B64_DEC_IN_MAX); char *in = malloc(n); __CPROVER_assume(n == 0 || in != NULL); "
      "unsigned char *out = malloc((size_t)3 * (n / 4) + 1); __CPROVER_assume(out != NULL); base64_decode(in, n, out);",
      "base64_decode/contract_C11_base64_decode", stubs=["stubs/ghost.c"], defines=["VERIF_NO_JWT_OPS_DEF"],
      flags=["--conversion-check"],
      loops={"base64_decode": [{"loop_id": 0, "vars": ["i", "j", "c", "in", "inlen", "out"],
        "assigns": "i, j, c, __CPROVER_object_whole(out)",
        "invariants": ["i <= inlen", "(inlen & 3) == 0", "j + ((i % 4) != 0 ? 1u : 0u) == 3 * (i / 4) + (i % 4)"],
        "decreases": "inlen - i"}]},
      expect=["contract_C11_base64_decode\\.postcondition\\.1", "base64_decode\\.loop_invariant_step", "base64_decode\\.loop_decreases"],
      timeout=600),
]}

# The unbounded FUNCTIONAL proof of base64_encode (ghost block index) is not part of any tier:
# its loop invariant is not yet inductive (loop_invariant_step.5 fails in the verifier, 50 s);
# the block/tail content is decided completely by the finite units below instead.
P["C11"]["units"] = [u for u in P["C11"]["units"] if u["name"] != "C11.base64_encode"]
P["C11"]["units"] += [
    U("C11.jwt_base64uri_decode", "jwt_base64uri_decode (libjwt/jwt.c)", JWT_C, "contracts/jwt_c.h",
      "size_t n; __CPROVER_assume(n < 0x200000000UL); char *s = nondet_bool() ? NULL : VS(n); int *rl; int l; rl = nondet_bool() ? NULL : &l; jwt_base64uri_decode(s, rl);",
      "jwt_base64uri_decode/contract_C11_jwt_base64uri_decode", replace=["base64_decode/contract_C11_base64_decode"],
      stubs=JWT_STUBS, defines=["VERIF_TU_JWT", "VERIF_STRLEN_RECORD"], pre=[VS], flags=["--conversion-check"], replay={"driver": "replay/r_C11_long.c"},
      loops={"jwt_base64uri_decode": [
        {"loop_id": 0, "vars": ["i", "len", "new", "src"], "assigns": "i, __CPROVER_object_whole(new)",
         "invariants": ["0 <= i && i <= len"], "decreases": "len - i"},
        {"loop_id": 1, "vars": ["i", "z", "len", "new"], "assigns": "i, z, __CPROVER_object_whole(new)",
         "invariants": ["z >= 0 && z <= 2 && i >= len && i <= len + 2", "i + z == len + ((len % 4) == 0 ? 0 : ((len % 4) == 2 ? 2 : 1))"], "decreases": "z"}]},
      expect=["contract_C11_jwt_base64uri_decode\\.postcondition\\.2", "jwt_base64uri_decode\\.loop_invariant_step", "contract_C11_base64_decode\\.precondition"],
      timeout=600),
    U("C11.jwt_base64uri_encode", "jwt_base64uri_encode (libjwt/jwt.c)", JWT_C, "contracts/jwt_c.h",
      "int n; __CPROVER_assume(n >= 0 && n <= B64_MAXLEN); char *p = malloc(n); __CPROVER_assume(n == 0 || p != NULL); char *d; jwt_base64uri_encode(&d, p, n);",
      "jwt_base64uri_encode/contract_C11_jwt_base64uri_encode", replace=["base64_encode/contract_C11shape_base64_encode"],
      stubs=JWT_STUBS, defines=["VERIF_TU_JWT"], flags=["--conversion-check"],
      loops={"jwt_base64uri_encode": [
        {"loop_id": 0, "vars": ["i", "len", "dst"], "assigns": "i, __CPROVER_object_whole(dst)",
         "invariants": ["0 <= i && i <= len", "(g_str_k < (unsigned long)i) ==> (dst[g_str_k] != '=' && dst[g_str_k] != '+' && dst[g_str_k] != '/')"],
         "decreases": "len - i", "globals": {"g_str_k": "g_str_k"}}]},
      expect=["contract_C11_jwt_base64uri_encode\\.postcondition\\.3", "jwt_base64uri_encode\\.loop_invariant_step", "contract_C11shape_base64_encode\\.precondition"],
      timeout=600),
]

def finite(name, function, tu, harness, entry, unwind, expect, extra_sources=(), stubs=(), defines=(), timeout=600, **kw):
    u = {"name": name, "function": function, "kind": "finite", "tu": tu if isinstance(tu, list) else [tu], "defines": list(defines),
         "contracts": ["contracts/base64_c.h"], "stubs": list(stubs), "entry": entry, "harness": harness, "no_contracts": True,
         "enforce": [], "replace": [], "flags": ["--conversion-check"], "unwind": unwind, "expect": list(expect), "timeout": timeout,
         "extra_sources": list(extra_sources)}
    u.update(kw)
    return u
P["C11"]["units"] += [
    finite("C11.finite.encode_blocks", "base64_encode (libjwt/base64.c): every input of length 0..3", B64_C,
           "harness/C11_finite.c", "h_C11_encode_blocks", 5, ["h_C11_encode_blocks\\.assertion\\.3"]),
    finite("C11.finite.decode_groups", "base64_decode (libjwt/base64.c): every 4-character group", B64_C,
           "harness/C11_finite.c", "h_C11_decode_groups", 6, ["h_C11_decode_groups\\.assertion\\.1"]),
    finite("C11.finite.roundtrip3", "jwt_base64uri_encode/jwt_base64uri_decode (libjwt/jwt.c) + base64.c: every input of length 1..3",
           JWT_C, "harness/C11_roundtrip.c", "h_C11_roundtrip", 12, ["h_C11_roundtrip\\.assertion\\.5"],
           extra_sources=["libjwt/base64.c"], stubs=["stubs/alloc.c", "stubs/ghost.c"], defines=["VERIF_ALLOC_NEVER_FAILS", "C11_MAXN=3"]),
    finite("C11.finite.roundtrip6", "jwt_base64uri_encode/jwt_base64uri_decode (libjwt/jwt.c) + base64.c: every input of length 1..6",
           JWT_C, "harness/C11_roundtrip.c", "h_C11_roundtrip", 12, ["h_C11_roundtrip\\.assertion\\.5"],
           extra_sources=["libjwt/base64.c"], stubs=["stubs/alloc.c", "stubs/ghost.c"], defines=["VERIF_ALLOC_NEVER_FAILS", "C11_MAXN=6"],
           tier="thorough", timeout=1200),
    finite("C11.finite.reject", "jwt_base64uri_decode (libjwt/jwt.c) + base64.c: every text of length 1..8",
           JWT_C, "harness/C11_roundtrip.c", "h_C11_reject", 12, ["h_C11_reject\\.assertion\\.1"],
           extra_sources=["libjwt/base64.c"], stubs=["stubs/alloc.c", "stubs/ghost.c"], defines=["VERIF_ALLOC_NEVER_FAILS"]),
]


# (a structure-independent bounded unit 'every text of 264 characters with a foreign byte anywhere is rejected' was tried for seed C11-B:
# the propositional reduction runs out of 12 GB -- symbolic strlen result, symbolic-size copy -- and was dropped; see DESIGN section 9)
STRCMP_BOUNDED = finite("C02.bounded.jwt_strcmp_N90", "jwt_strcmp (libjwt/jwt-memory.c): every pair of strings of at most 90 characters",
    "libjwt/jwt-memory.c", "harness/strcmp_bounded.c", "h_strcmp_bounded", 92, ["h_strcmp_bounded\\.assertion\\.1"],
    defines=["STRCMP_N=90"], kind="bounded", bound="both strings <= 90 characters (loops unwound 92 times, unwinding assertions on)", timeout=900)
STRCMP_BOUNDED["flags"] = []
# =============================== C15 =======================================
SETGET_C = "libjwt/jwt-setget.c"
SETGET_STUBS = LIBC + ["stubs/jansson.c", "stubs/alloc.c"]
P["C15"] = {"property": "C15", "level": "proof", "units": [
    U("C15.__getter", "__getter -> jwt_get_int/str/bool (libjwt/jwt-setget.c)", SETGET_C, "contracts/jwt_setget_c.h",
      "json_t *w; jwt_value_t *v; __getter(w, v);", "__getter/contract_C15___getter", stubs=SETGET_STUBS, flags=[],
      expect=["contract_C15___getter\\.postcondition\\.5"]),
    U("C15.__getter_json", "__getter -> jwt_get_json (libjwt/jwt-setget.c)", SETGET_C, "contracts/jwt_setget_c.h",
      "json_t *w; jwt_value_t *v; __getter(w, v);", "__getter/contract_C15___getter_json", stubs=SETGET_STUBS, flags=[],
      expect=["contract_C15___getter_json\\.postcondition\\.4"]),
    U("C15.__setter", "__setter -> jwt_set_int/str/bool -> jwt_obj_check (libjwt/jwt-setget.c)", SETGET_C, "contracts/jwt_setget_c.h",
      "json_t *w; jwt_value_t *v; __setter(w, v);", "__setter/contract_C15___setter", stubs=SETGET_STUBS, flags=[],
      expect=["contract_C15___setter\\.postcondition\\.4", "contract_C15___setter\\.postcondition\\.5"]),
    U("C15.__setter_json", "__setter -> jwt_set_json -> jwt_obj_check (libjwt/jwt-setget.c)", SETGET_C, "contracts/jwt_setget_c.h",
      "json_t *w; jwt_value_t *v; __setter(w, v);", "__setter/contract_C15___setter_json", stubs=SETGET_STUBS, flags=[], replay={"driver": "replay/r_C15_uaf.c"},
      expect=["contract_C15___setter_json\\.postcondition\\.2", "contract_C15___setter_json\\.postcondition\\.4"]),
    U("C15.__deleter", "__deleter (libjwt/jwt-setget.c)", SETGET_C, "contracts/jwt_setget_c.h",
      "json_t *w; const char *f; __deleter(w, f);", "__deleter/contract_C15___deleter", stubs=SETGET_STUBS, flags=[],
      expect=["contract_C15___deleter\\.postcondition\\.2"]),
]}

# =============================== C16 =======================================
JWKS_C = "libjwt/jwks.c"
def c16_seq(name, mode, what, n, tier, timeout):
    u = finite(name, what + " (libjwt/jwks.c, libjwt/ll.h): keyrings of <= %d items" % n,
               JWKS_C, "harness/C16_seq.c", "h_C16_seq", n + 2, ["h_C16_seq\\.assertion\\.1", "unwind"],
               stubs=["stubs/alloc.c", "stubs/ghost.c", "stubs/jansson.c"],
               defines=["VERIF_ALLOC_NEVER_FAILS", "VJ_MODEL_FREE", "C16_N=%d" % n, "C16_MODE=%d" % mode], timeout=timeout)
    u["kind"] = "bounded"; u["bound"] = "N<=%d items" % n; u["tier"] = tier
    return u
C16_MODES = [(1, "read", "jwks_item_get / jwks_item_count / jwks_find_bykid / jwks_error_any / jwks_item_add"),
             (2, "free_twice", "jwks_item_free x2 / __item_free / list_del"),
             (3, "free_bad", "jwks_item_free_bad x2 / __item_free"),
             (4, "free_then_add", "jwks_item_free then jwks_item_add"),
             (5, "free_all", "jwks_item_free_all / jwks_free")]
C16_QUICK_N = {1: 8, 2: 3, 3: 1, 4: 6, 5: 1}	# ring sizes of the quick tier per scenario (what finishes in minutes)
P["C16"] = {"property": "C16", "level": "model_checking", "units":
    [c16_seq("C16.bounded.%s_N%d" % (nm, C16_QUICK_N[md]), md, what, C16_QUICK_N[md], "quick", 1500) for md, nm, what in C16_MODES] +
    # thorough: longer rings for the scenarios that scale (free_all / free_bad with 2 items exhaust 12 GB: not in any tier)
    [c16_seq("C16.bounded.read_N16", 1, C16_MODES[0][2], 16, "thorough", 3000),
     c16_seq("C16.bounded.free_then_add_N10", 4, C16_MODES[3][2], 10, "thorough", 3000),
     c16_seq("C16.bounded.free_twice_N4", 2, C16_MODES[1][2], 4, "thorough", 3000)]}

# =============================== C12 (provider switching) ==================
OPS_C = "libjwt/jwt-crypto-ops.c"
OPS_PRE = ['struct jwt_crypto_ops jwt_openssl_ops = { .name = "openssl", .provider = JWT_CRYPTO_OPS_OPENSSL };',
           'struct jwt_crypto_ops jwt_gnutls_ops = { .name = "gnutls", .provider = JWT_CRYPTO_OPS_GNUTLS };', VS]
def ops_unit(name, fn, contract, body, replace=()):
    return U("C12." + name, "%s (libjwt/jwt-crypto-ops.c)" % fn, OPS_C, "contracts/jwt_crypto_ops_c.h", body, "%s/%s" % (fn, contract),
             replace=replace, stubs=["stubs/libc.c", "stubs/ghost.c", "stubs/env.c"], defines=["VERIF_NO_JWT_OPS_DEF"], pre=OPS_PRE,
             unwindset="jwt_set_crypto_ops.0:4,jwt_set_crypto_ops_t.0:4", expect=[contract + "\\.postcondition\\.2"], timeout=300)
P["C12"] = {"property": "C12", "level": "proof", "units": [
    ops_unit("jwt_set_crypto_ops", "jwt_set_crypto_ops", "contract_C12_jwt_set_crypto_ops",
             "size_t n; __CPROVER_assume(n < 0x10000000); char *s = VS(n); jwt_set_crypto_ops(s);",
             replace=["jwt_strcmp/contract_exact1_jwt_strcmp"]),
    ops_unit("jwt_set_crypto_ops_t", "jwt_set_crypto_ops_t", "contract_C12_jwt_set_crypto_ops_t",
             "jwt_crypto_provider_t p; jwt_set_crypto_ops_t(p);"),
    ops_unit("jwt_init", "jwt_init", "contract_C12_jwt_init",
             "size_t n; __CPROVER_assume(n < 0x10000000); g_env_value = nondet_bool() ? NULL : VS(n); jwt_init();",
             replace=["jwt_set_crypto_ops/contract_C12_jwt_set_crypto_ops"]),
    U("C12.jwt_strcmp_exact1", "jwt_strcmp (libjwt/jwt-memory.c), first argument short", "libjwt/jwt-memory.c", "contracts/jwt_memory_c.h",
      "size_t n1, n2; __CPROVER_assume(n2 < 0x10000000 && n1 < 8); char *a = VS(n1), *b = VS(n2); jwt_strcmp(a, b);",
      "jwt_strcmp/contract_exact1_jwt_strcmp", stubs=["stubs/libc.c"], pre=[VS],
      loops={"jwt_strcmp": [{"loop_id": 0, "vars": ["i", "ret", "len1", "len2", "len_max", "str1", "str2"],
                             "assigns": "i, ret",
                             "invariants": ["0 <= i && i <= len_max", "len_max == (len1 >= len2 ? len1 : len2)", "len1 <= 7",
                                            "(ret == 0) == PREFIX_EQ(i)"],
                             "decreases": "len_max - i"}]},
      loop_macro_headers=["contracts/loopmacros_strcmp.h"],
      expect=["contract_exact1_jwt_strcmp\\.postcondition\\.1", "jwt_strcmp\\.loop_invariant_step"]),
]}

# =================== the OpenSSL provider entries (C01/C05/C12/C06) =========
OSSL_SV = "libjwt/openssl/sign-verify.c"
OSSL_STUBS = LIBC + ["stubs/alloc.c", "stubs/openssl.c"]
def ossl_units(prefix):
    return [
        U(prefix + ".openssl_sign_sha_hmac", "openssl_sign_sha_hmac (libjwt/openssl/sign-verify.c)", OSSL_SV, "contracts/openssl_sv_c.h",
          "jwt_t *jwt = malloc(sizeof(*jwt)); jwk_item_t *key = malloc(sizeof(*key)); __CPROVER_assume(jwt != NULL && key != NULL); jwt->key = key; char *o = NULL; unsigned int l; size_t n; __CPROVER_assume(n < 0x10000000); char *s = VS(n); unsigned sl; __CPROVER_assume(sl <= n); openssl_sign_sha_hmac(jwt, &o, &l, s, sl);",
          "openssl_sign_sha_hmac/contract_ops_sign_sha_hmac", stubs=OSSL_STUBS, defines=["VERIF_TU_OSSL_SV"], pre=[VS],
          expect=["contract_ops_sign_sha_hmac\\.postcondition\\.2", "HMAC\\.assertion"]),
        U(prefix + ".openssl_verify_sha_pem", "openssl_verify_sha_pem (libjwt/openssl/sign-verify.c)", OSSL_SV, "contracts/openssl_sv_c.h",
          "jwt_t *jwt = malloc(sizeof(*jwt)); jwk_item_t *key = malloc(sizeof(*key)); __CPROVER_assume(jwt != NULL && key != NULL); jwt->key = key; char *o = NULL; unsigned int l; size_t n; __CPROVER_assume(n < 0x10000000); char *s = VS(n); unsigned hl; __CPROVER_assume(hl <= n); int sl; __CPROVER_assume(sl >= 1 && sl <= 0x100000); unsigned char *sig = malloc(sl); __CPROVER_assume(sig != NULL); g_der_buf = NULL; g_der_sig = NULL; openssl_verify_sha_pem(jwt, s, hl, sig, sl);",
          "openssl_verify_sha_pem/contract_ops_verify_sha_pem", stubs=OSSL_STUBS, defines=["VERIF_TU_OSSL_SV", "VERIF_STRCPY_ERRBUF"], pre=[VS],
          expect=["contract_ops_verify_sha_pem\\.postcondition\\.1", "EVP_DigestVerify\\.assertion"]),
        U(prefix + ".jwt_ec_d2i", "jwt_ec_d2i (libjwt/openssl/sign-verify.c)", OSSL_SV, "contracts/openssl_sv_c.h",
          "jwt_t *jwt; char *o; unsigned l; unsigned sl; __CPROVER_assume(sl >= 1 && sl <= 1024); unsigned char *sig = malloc(sl); __CPROVER_assume(sig != NULL); jwt_t j; jwk_item_t k; j.key = &k; jwt_ec_d2i(&j, &o, &l, sig, sl);",
          "jwt_ec_d2i/contract_C05_jwt_ec_d2i", stubs=OSSL_STUBS, defines=["VERIF_TU_OSSL_SV"],
          expect=["contract_C05_jwt_ec_d2i\\.postcondition\\.2", "BN_bn2bin\\.assertion"]),
        U(prefix + ".openssl_sign_sha_pem", "openssl_sign_sha_pem (libjwt/openssl/sign-verify.c)", OSSL_SV, "contracts/openssl_sv_c.h",
          "jwt_t *jwt = malloc(sizeof(*jwt)); jwk_item_t *key = malloc(sizeof(*key)); __CPROVER_assume(jwt != NULL && key != NULL); jwt->key = key; char *o = NULL; unsigned int l; size_t n; __CPROVER_assume(n < 0x10000000); char *s = VS(n); unsigned sl; __CPROVER_assume(sl <= n); openssl_sign_sha_pem(jwt, &o, &l, s, sl);",
          "openssl_sign_sha_pem/contract_ops_sign_sha_pem", replace=["jwt_ec_d2i/contract_C05_jwt_ec_d2i"],
          stubs=OSSL_STUBS, defines=["VERIF_TU_OSSL_SV"], pre=[VS],
          expect=["contract_ops_sign_sha_pem\\.postcondition\\.2", "EVP_DigestSign\\.assertion"]),
    ]
P["C01"]["units"] += ossl_units("C01")[:2]
P["C05"] = {"property": "C05", "level": "proof", "units": ossl_units("C05")[2:]}
_u = dict(ossl_units("C05")[1]); _u["name"] = "C05.openssl_verify_sha_pem.complete"; _u["enforce"] = "openssl_verify_sha_pem/contract_C05_openssl_verify_sha_pem"
_u["expect"] = ["contract_C05_openssl_verify_sha_pem\\.postcondition\\.8"]; _u["defines"] = _u["defines"] + ["VERIF_ALLOC_RECORD_FAIL"]
P["C05"]["units"].append(_u)

# =================== the GnuTLS provider entries (C12 parity, C01, C06) =====
GNUTLS_SV = "libjwt/gnutls/sign-verify.c"
GNUTLS_STUBS = LIBC + ["stubs/alloc.c", "stubs/gnutls.c"]
MKJ = "jwt_t *jwt = malloc(sizeof(*jwt)); jwk_item_t *key = malloc(sizeof(*key)); __CPROVER_assume(jwt != NULL && key != NULL); jwt->key = key; char *o = NULL; unsigned int l; gnutls_free = verif_gnutls_free; g_rs_buf = NULL; g_rs_freed = 0; "
PEM = "size_t pn; __CPROVER_assume(pn < 0x100000); key->pem = nondet_bool() ? NULL : VS(pn); "
def gnutls_units(prefix):
    return [
        U(prefix + ".gnutls_sign_sha_hmac", "gnutls_sign_sha_hmac (libjwt/gnutls/sign-verify.c)", GNUTLS_SV, "contracts/gnutls_sv_c.h",
          MKJ + "size_t n; __CPROVER_assume(n < 0x10000000); char *s = VS(n); unsigned sl; __CPROVER_assume(sl <= n); gnutls_sign_sha_hmac(jwt, &o, &l, s, sl);",
          "gnutls_sign_sha_hmac/contract_ops_sign_sha_hmac", stubs=GNUTLS_STUBS, defines=["VERIF_TU_GNUTLS_SV"], pre=[VS],
          expect=["contract_ops_sign_sha_hmac\\.postcondition\\.2", "gnutls_hmac_fast\\.assertion"]),
        U(prefix + ".gnutls_verify_sha_pem", "gnutls_verify_sha_pem (libjwt/gnutls/sign-verify.c)", GNUTLS_SV, "contracts/gnutls_sv_c.h",
          MKJ + PEM + "size_t n; __CPROVER_assume(n < 0x10000000); char *s = VS(n); unsigned hl; __CPROVER_assume(hl <= n); int sl; __CPROVER_assume(sl >= 1 && sl <= 0x100000); unsigned char *sig = malloc(sl); __CPROVER_assume(sig != NULL); gnutls_verify_sha_pem(jwt, s, hl, sig, sl);",
          "gnutls_verify_sha_pem/contract_ops_verify_sha_pem", stubs=GNUTLS_STUBS, defines=["VERIF_TU_GNUTLS_SV", "VERIF_STRCPY_ERRBUF"], pre=[VS],
          expect=["contract_ops_verify_sha_pem\\.postcondition\\.1", "gnutls_pubkey_verify_data2\\.assertion"]),
        U(prefix + ".gnutls_sign_sha_pem", "gnutls_sign_sha_pem (libjwt/gnutls/sign-verify.c)", GNUTLS_SV, "contracts/gnutls_sv_c.h",
          MKJ + PEM + "size_t n; __CPROVER_assume(n < 0x10000000); char *s = VS(n); unsigned sl; __CPROVER_assume(sl <= n); gnutls_sign_sha_pem(jwt, &o, &l, s, sl);",
          "gnutls_sign_sha_pem/contract_ops_sign_sha_pem", stubs=GNUTLS_STUBS, defines=["VERIF_TU_GNUTLS_SV"], pre=[VS],
          expect=["contract_ops_sign_sha_pem\\.postcondition\\.2", "gnutls_privkey_sign_data\\.assertion"]),
    ]
_u = dict(gnutls_units("C06")[1]); _u["name"] = "C06.gnutls_verify_sha_pem.release"; _u["enforce"] = "gnutls_verify_sha_pem/contract_C06_gnutls_verify_sha_pem"
_u["expect"] = ["contract_C06_gnutls_verify_sha_pem\\.postcondition\\.6"]
GNUTLS_RELEASE_UNIT = _u
P["C01"]["units"] += gnutls_units("C01")[:2]
P["C05"]["units"] += gnutls_units("C05")[2:]
P["C12"]["units"] += gnutls_units("C12") + [dict(u, name=u["name"].replace("C01.", "C12.")) for u in ossl_units("C01")[:2]] + \
    [dict(ossl_units("C05")[3], name="C12.openssl_sign_sha_pem", replace=["jwt_ec_d2i/contract_C05_jwt_ec_d2i"])]

# =================== JWK import (C07 / C08 / C09) ===========================
JWKP = "libjwt/openssl/jwk-parse.c"
JWKP_STUBS = LIBC + ["stubs/alloc.c", "stubs/jansson.c", "stubs/openssl.c", "stubs/openssl_jwk.c", "stubs/b64_shape.c"]
def jwkp_unit(prop, fn):
    c = "contract_C07_" + fn
    return U("%s.%s" % (prop, fn), "%s -> set_one_bn / set_one_octet / set_ec_pub_key / pctx_to_pem (libjwt/openssl/jwk-parse.c)" % fn, JWKP,
             "contracts/jwk_parse_c.h", "json_t *j; jwk_item_t *it; %s(j, it);" % fn, "%s/%s" % (fn, c),
             replace=["jwt_strcmp/contract_exact_jwt_strcmp"], stubs=JWKP_STUBS, defines=["VERIF_B64_TRACK", "VERIF_ALLOC_RECORD_FAIL"], flags=[],
             expect=[c + "\\.postcondition\\.2", c + "\\.postcondition\\.4"], timeout=900, replay={"driver": "replay/r_C07.c"})
P["C07"] = {"property": "C07", "level": "proof", "units": [jwkp_unit("C07", f) for f in ("openssl_process_rsa", "openssl_process_ec", "openssl_process_eddsa")]}
JWKS_STUBS = LIBC + ["stubs/alloc.c", "stubs/jansson.c", "stubs/b64_shape.c"]
P["C08"] = {"property": "C08", "level": "proof", "units": [
    U("C08.process_octet", "process_octet (libjwt/jwks.c)", JWKS_C, "contracts/jwks_c.h", "json_t *j; jwk_item_t *it; process_octet(j, it);",
      "process_octet/contract_C08_process_octet", stubs=JWKS_STUBS, defines=["VERIF_TU_JWKS", "VERIF_B64_TRACK", "B64_DEC_MAX=0x1000000"], flags=[],
      bound_note="oct key material of at most 16 MiB (item->bits = len * 8 is computed in int)",
      expect=["contract_C08_process_octet\\.postcondition\\.4"]),
] + [dict(jwkp_unit("C07", f), name="C08." + f) for f in ("openssl_process_rsa", "openssl_process_ec", "openssl_process_eddsa")]}


# ============================ parsing units =================================
VERIFY_JSON_STUBS = LIBC + ["stubs/time.c", "stubs/jansson.c", "stubs/alloc.c"]
def parse_units(prop, clauses_name):
    us = []
    us.append(U(prop + ".jwt_parse_head", "jwt_parse_head (libjwt/jwt-verify.c)", VERIFY_C, "contracts/jwt_verify_c.h",
        "jwt_t *jwt; size_t n; __CPROVER_assume(n < 0x10000000); char *h = VS(n); jwt_parse_head(jwt, h);",
        "jwt_parse_head/contract_%s_jwt_parse_head" % clauses_name,
        replace=["jwt_str_alg/contract_C02_jwt_str_alg"],
        stubs=VERIFY_JSON_STUBS + ["stubs/b64_shape.c"], defines=["VERIF_TU_JWT_VERIFY"], pre=[VS], flags=[],
        expect=["contract_%s_jwt_parse_head\\.postcondition\\.1" % clauses_name, "contract_C02_jwt_str_alg\\.precondition"],
        replay={"driver": "replay/r_C14.c"} if prop == "C14" else None,
        **({"checks": "none", "safety_unit": "C14.jwt_parse_head"} if prop == "C02" else {})))
    return us
# NOTE jwt_parse_head / jwt_parse_payload are verified together with the real
# body of the static jwt_base64uri_decode_to_json they call.
P["C14"] = {"property": "C14", "level": "proof", "units": parse_units("C14", "C14") + [
    U("C14.jwt_parse_payload", "jwt_parse_payload (libjwt/jwt-verify.c)", VERIFY_C, "contracts/jwt_verify_c.h",
      "jwt_t *jwt; size_t n; __CPROVER_assume(n < 0x10000000); char *h = VS(n); jwt_parse_payload(jwt, h);",
      "jwt_parse_payload/contract_C14_jwt_parse_payload",
      stubs=VERIFY_JSON_STUBS + ["stubs/b64_shape.c"], defines=["VERIF_TU_JWT_VERIFY"], pre=[VS], flags=[],
      expect=["contract_C14_jwt_parse_payload\\.postcondition\\.1"]),
    vcp("C14", R_C02), vc("C14"),
]}
P["C02"]["units"] += parse_units("C02", "C02") + [vc("C02")]
# jwt_parse: BOUNDED stand-in.  The two dot-scanning loops were given loop contracts (payload/sig stay
# inside the copy, the copy keeps its terminator); goto-instrument accepts them and every obligation is
# discharged one at a time, but the whole formula needs > 38 GB (three attempts: slice frame, whole-object
# frame with loop_entry invariants, recorded instead of performed free).  So the loops are unwound instead:
# every token of fewer than N characters (all positions of the dots, all contents), unwinding assertions on.
def parse_unit(N, tier):
    # token length L < 2^33 with (L mod 2^32) < N: every token shorter than N, AND every token whose length wraps to less
    # than N in 32 bits (strlen + 1 used to be kept in an int: defect F16).  The strlen model is told the token's length.
    return U("C06.bounded.jwt_parse_N%d" % N, "jwt_parse (libjwt/jwt-verify.c): every token whose length modulo 2^32 is below %d" % N, VERIFY_C, "contracts/jwt_verify_c.h",
      "jwt_t *jwt; size_t n; __CPROVER_assume(n < 0x200000000UL && (n & 0xffffffffUL) < %d); char *t = VS(n); g_strlen_hint_s = t; g_strlen_hint_n = n; unsigned *l; jwt_parse(jwt, t, l);" % N,
      "jwt_parse/contract_all_jwt_parse",
      replace=["jwt_parse_head/contract_rec_jwt_parse_head", "jwt_parse_payload/contract_rec_jwt_parse_payload"],
      stubs=VERIFY_JSON_STUBS + ["stubs/parse_env.c"], defines=["VERIF_TU_JWT_VERIFY", "VERIF_STRLEN_RECORD", "VERIF_STRLEN_HINT"],
      pre=[VS, "extern const char *g_strlen_hint_s; extern size_t g_strlen_hint_n;"], flags=["--conversion-check"],
      assumed_contracts=["jwt_parse_head/contract_rec_jwt_parse_head", "jwt_parse_payload/contract_rec_jwt_parse_payload"],
      unwindset="jwt_parse.0:%d,jwt_parse.1:%d" % (N + 2, N + 2), kind="bounded",
      bound="token length L < 2^33 with L mod 2^32 < %d (loops unwound %d times, unwinding assertions on)" % (N, N + 2),
      expect=["contract_all_jwt_parse\\.postcondition\\.9", "jwt_parse\\.unwind", "contract_rec_jwt_parse_head\\.precondition", "memcpy\\.assertion\\.1"],
      timeout=900, timeout_thorough=3000, tier=tier, replay={"driver": "replay/r_C06_long.c"})
P["C06"] = {"property": "C06", "level": "proof", "units": [parse_unit(12, "quick"), parse_unit(28, "thorough"), GNUTLS_RELEASE_UNIT,
    U("C06.jwt_base64uri_decode_to_json", "jwt_base64uri_decode_to_json (libjwt/jwt-verify.c)", VERIFY_C, "contracts/jwt_verify_c.h",
      "size_t n; __CPROVER_assume(n < 0x10000000); char *h = VS(n); jwt_base64uri_decode_to_json(h);",
      "jwt_base64uri_decode_to_json/contract_jwt_base64uri_decode_to_json",
      stubs=VERIFY_JSON_STUBS + ["stubs/b64_shape.c"], defines=["VERIF_TU_JWT_VERIFY"], pre=[VS], flags=[],
      expect=["contract_jwt_base64uri_decode_to_json\\.postcondition\\.1"]),
]}

# =============================== C09 =======================================
P["C09"] = {"property": "C09", "level": "proof", "units": gate_chain("C09") + [vc("C09")]}

P["C19"] = {"property": "C19", "level": "proof", "units": [top("C19", replay={"driver": "replay/r_C19.c"})]}
def cfg_unit(prop, side, fn, contract, body, replay=None):
    return U("%s.%s" % (prop, fn), "%s (libjwt/jwt-common.c)" % fn, common_tu(side), "contracts/jwt_common_c.h", body,
             "%s/%s" % (fn, contract), stubs=LIBC, defines=["VERIF_TU_" + side], expect=[contract + "\\.postcondition\\.2"],
             timeout=120, replay=replay)
R_CFG = {"driver": "replay/r_cfg.c"}
ENCODE_C = "libjwt/jwt-encode.c"
ENC_UNIT = U("C10.jwt_encode", "jwt_encode -> write_js (libjwt/jwt-encode.c)", ENCODE_C, "contracts/jwt_encode_c.h",
    "jwt_t *j; char *o; char **po = nondet_bool() ? NULL : &o; jwt_encode(j, po);", "jwt_encode/contract_C10_jwt_encode",
    stubs=["stubs/libc.c", "stubs/ghost.c", "stubs/alloc.c", "stubs/jansson.c", "stubs/b64_shape.c", "stubs/encode_env.c"],
    defines=["VERIF_TU_JWT_ENCODE", "VERIF_NO_STRCPY", "VERIF_NO_STRLEN", "VJ_MAX_STR=0x200000000UL"], flags=["--conversion-check"], replay={"driver": "replay/r_C10_long.c", "timeout": 900},
    expect=["contract_C10_jwt_encode\\.postcondition\\.3", "strcat\\.assertion", "verif_sprintf3\\.assertion", "jwt_sign\\.assertion"], timeout=900)
HEAD_UNIT = U("C10.jwt_head_setup", "jwt_head_setup (libjwt/jwt-encode.c)", ENCODE_C, "contracts/jwt_encode_c.h",
    "jwt_t *j; jwt_head_setup(j);", "jwt_head_setup/contract_C10_jwt_head_setup",
    stubs=["stubs/libc.c", "stubs/ghost.c", "stubs/head_env.c"], defines=["VERIF_TU_JWT_ENCODE"], flags=[],
    expect=["contract_C10_jwt_head_setup\\.postcondition\\.11", "jwt_header_set\\.assertion\\.1", "contract_C10_jwt_head_setup\\.postcondition\\.10"], timeout=300)
ALGSTR_UNIT = U("C10.jwt_alg_str", "jwt_alg_str (libjwt/jwt.c)", JWT_C, "contracts/jwt_c.h", "jwt_alg_t a; jwt_alg_str(a);", "jwt_alg_str/contract_C05_jwt_alg_str",
    stubs=JWT_STUBS, defines=["VERIF_TU_JWT"], flags=[], expect=["contract_C05_jwt_alg_str\\.postcondition\\.1"], timeout=300)
P["C10"] = {"property": "C10", "level": "proof", "units": [gen_top(), ENC_UNIT, HEAD_UNIT, ALGSTR_UNIT,
    U("C10.jwt_encode_str", "jwt_encode_str (libjwt/jwt-encode.c)", ENCODE_C, "contracts/jwt_encode_c.h", "jwt_t *j; jwt_encode_str(j);",
      "jwt_encode_str/contract_C10_jwt_encode_str", replace=["jwt_encode/contract_rec_jwt_encode"], assumed_contracts=["jwt_encode/contract_rec_jwt_encode"],
      stubs=["stubs/libc.c", "stubs/ghost.c", "stubs/alloc.c"], defines=["VERIF_TU_JWT_ENCODE"], flags=[],
      expect=["contract_C10_jwt_encode_str\\.postcondition\\.2", "contract_rec_jwt_encode\\.precondition"], timeout=300),
    cfg_unit("C10", "BUILDER", "jwt_builder_time_offset", "contract_C10_jwt_builder_time_offset",
             "jwt_builder_t *b; jwt_claims_t c; time_t s; jwt_builder_time_offset(b, c, s);", dict(R_CFG, args=["fn=offset"])),
    cfg_unit("C10", "BUILDER", "jwt_builder_enable_iat", "contract_C10_jwt_builder_enable_iat",
             "jwt_builder_t *b; int e; jwt_builder_enable_iat(b, e);"),
]}
P["C04"]["units"].append(cfg_unit("C04", "CHECKER", "jwt_checker_time_leeway", "contract_C04_jwt_checker_time_leeway",
             "jwt_checker_t *c; jwt_claims_t cl; time_t s; jwt_checker_time_leeway(c, cl, s);", dict(R_CFG, args=["fn=leeway"])))
P["C13"] = {"property": "C13", "level": "proof", "units": [gen_top(), top("C13")]}
P["C17"] = {"property": "C17", "level": "proof", "units": [gen_top()]}
for _side, _fn in (("BUILDER", "jwt_builder_new"), ("CHECKER", "jwt_checker_new")):
    P["C17"]["units"].append(U("C17.%s" % _fn, "%s (libjwt/jwt-common.c)" % _fn, common_tu(_side), "contracts/jwt_common_c.h",
        "%s();" % _fn, "%s/contract_C17_cmd_new" % _fn, stubs=LIBC + ["stubs/alloc.c", "stubs/jansson.c"], defines=["VERIF_TU_" + _side],
        flags=[], expect=["contract_C17_cmd_new\\.postcondition\\.2"], timeout=300))
MEM_C = "libjwt/jwt-memory.c"
def mem_unit(fn, body, expect_n):
    return U("C17.%s" % fn, "%s (libjwt/jwt-memory.c)" % fn, MEM_C, "contracts/jwt_memory_c.h", "MEM_TAKE_ADDRESSES; " + body,
             "%s/contract_C17_%s" % (fn, fn), stubs=["stubs/memory_env.c"], defines=["VERIF_TU_JWT_MEMORY"], flags=[],
             expect=["contract_C17_%s\\.postcondition\\.%d" % (fn, expect_n)], timeout=300)
P["C17"]["units"] += [
    mem_unit("jwt_malloc", "size_t n; jwt_malloc(n);", 1),
    dict(mem_unit("__jwt_freemem", "void *p; __jwt_freemem(p);", 1), expect=["contract_user_free\\.precondition", "free\\.precondition"]),
    mem_unit("jwt_set_alloc", "jwt_malloc_t m; jwt_free_t f; jwt_set_alloc(m, f);", 2),
    mem_unit("jwt_get_alloc", "jwt_malloc_t *m; jwt_free_t *f; jwt_get_alloc(m, f);", 2),
]
P["C03"]["units"].append(gen_top())
P["C14"]["units"].append(gen_top())
for _p in ("C01", "C02", "C03", "C04", "C06", "C09", "C14"):
    P[_p]["units"].append(top(_p))

# ---------------------------------------------------------------------------
# C20: the command-line tools
# ---------------------------------------------------------------------------
TOOLS_STUBS = ["stubs/tools_env.c"]
_getopt_uw = "getopt_long.0:17,getopt_long.1:33"
P["C20"] = {"property": "C20", "level": "proof", "units": [
    U("C20.jwt_verify.main", "main (tools/jwt-verify.c) with process_one", "tools/jwt-verify.c", "contracts/tools_c.h",
      "int argc; char **argv; tool_main(argc, argv);", "tool_main/contract_C20_jwt_verify_main",
      stubs=TOOLS_STUBS, defines=["main=tool_main"], flags=[], enum_consts=["JWT_ALG_INVAL"],
      loops={"tool_main": [
        {"loop_id": 0, "vars": ["alg"], "assigns": "alg", "invariants": ["(unsigned)alg <= JWT_ALG_INVAL"], "decreases": "(int)JWT_ALG_INVAL - (int)alg"},
        {"loop_id": 1, "vars": ["oc", "alg", "quiet", "verbose", "key_file"],
         "assigns": "oc, alg, quiet, verbose, key_file, pipe_cmd, optind, optarg, g_getopt_calls, g_exit_status8, g_user_alg",
         "invariants": ["g_tok_calls == 0 && g_tok_bad == 0", "alg == g_user_alg"], "globals": {"g_user_alg": "g_user_alg", "pipe_cmd": "pipe_cmd", "optind": "optind", "optarg": "optarg", "g_getopt_calls": "g_getopt_calls", "g_tok_calls": "g_tok_calls", "g_tok_bad": "g_tok_bad", "g_tok_last": "g_tok_last", "g_exit_status8": "g_exit_status8"}},
        {"loop_id": 2, "vars": ["err", "token"],
         "assigns": "err, __CPROVER_object_whole(token), g_tok_calls, g_tok_bad, g_tok_last",
         "invariants": ["0 <= err && err <= 255", "(err == 0) == (g_tok_bad == 0)", "g_tok_bad <= g_tok_calls"], "globals": {"pipe_cmd": "pipe_cmd", "optind": "optind", "optarg": "optarg", "g_getopt_calls": "g_getopt_calls", "g_tok_calls": "g_tok_calls", "g_tok_bad": "g_tok_bad", "g_tok_last": "g_tok_last", "g_exit_status8": "g_exit_status8"}},
        {"loop_id": 3, "vars": ["err", "oc", "argc"],
         "assigns": "err, oc, g_tok_calls, g_tok_bad, g_tok_last",
         "invariants": ["0 <= oc && oc <= argc", "0 <= err && err <= 255", "(err == 0) == (g_tok_bad == 0)", "g_tok_bad <= g_tok_calls", "(oc > 0) == (g_tok_calls > 0)"], "decreases": "argc - oc", "globals": {"pipe_cmd": "pipe_cmd", "optind": "optind", "optarg": "optarg", "g_getopt_calls": "g_getopt_calls", "g_tok_calls": "g_tok_calls", "g_tok_bad": "g_tok_bad", "g_tok_last": "g_tok_last", "g_exit_status8": "g_exit_status8"}},
      ]},
      expect=["exit\\.assertion\\.1", "exit\\.assertion\\.2", "getopt_long\\.assertion\\.2", "getopt_long\\.assertion\\.3", "find_short\\.assertion\\.1", "tool_main\\.loop_invariant_step", "jwt_checker_setkey\\.assertion\\.1"], timeout=600,
      replay={"driver": "replay/r_C20_verify.c"}),
    U("C20.bounded.jwt_verify.stdin", "main (tools/jwt-verify.c) with process_one: content of the tokens read from standard input", "tools/jwt-verify.c", "contracts/tools_c.h",
      "int argc; char **argv; tool_main(argc, argv);", "tool_main/contract_C20_jwt_verify_main_stdin",
      stubs=TOOLS_STUBS, defines=["main=tool_main", "VERIF_STDIN_MODEL"], flags=[], kind="bounded",
      unwindset="tool_main.0:18,tool_main.1:3,tool_main.2:4,tool_main.3:4,fill_line.0:7,strlen.0:9,strcspn.0:9,jwt_checker_verify.0:7", unwind_default=6,
      bound="at most 2 arguments, 1 option, 2 stdin lines of at most 3 characters (loops unwound to these bounds, unwinding assertions on)",
      expect=["jwt_checker_verify\\.assertion\\.3", "exit\\.assertion\\.1", "unwind"], timeout=3000, tier="thorough"),
] + [
    U("C20.%s.option_tables" % t.replace("-", "_"), "main (tools/%s.c) up to getopt_long" % t, "tools/%s.c" % t, "contracts/tools_c.h",
      "int argc; char **argv; tool_main(argc, argv);", "tool_main/contract_C20_tool_main_tables",
      stubs=TOOLS_STUBS, defines=["main=tool_main", "VERIF_GETOPT_STOP"], flags=[], kind="finite",
      expect=["getopt_long\\.assertion\\.2", "getopt_long\\.assertion\\.3", "find_short\\.assertion\\.1"], timeout=600)
    for t in ("jwt-generate", "key2jwk", "jwk2key")
] + [
    U("C20.key2jwk.process_ec_key", "process_ec_key -> ec_alg_type, get_one_bn (tools/key2jwk.c)", "tools/key2jwk.c", "contracts/key2jwk_c.h",
      "EVP_PKEY *k; int priv; json_t *j; process_ec_key(k, priv, j);", "process_ec_key/contract_C20_process_ec_key",
      stubs=["stubs/key2jwk_env.c"], defines=["main=tool_main"], flags=[],
      expect=["contract_C20_process_ec_key\\.postcondition\\.3", "BN_bn2bin(pad)?\\.assertion\\.1"], timeout=600,
      replay={"driver": "replay/r_C20_ec.c"}),
]}

for _f in ("openssl_process_rsa", "openssl_process_ec", "openssl_process_eddsa"):
    P["C07"]["units"].append(U("C07.%s.shape" % _f, "%s (libjwt/openssl/jwk-parse.c), as called through jwt_ops" % _f, JWKP, "contracts/jwks_c.h",
        "json_t *j = malloc(sizeof(json_t)); jwk_item_t *it = malloc(sizeof(*it)); __CPROVER_assume(j != NULL && it != NULL); j->type = JSON_OBJECT; j->refcount = 1; j->tracked = NULL; g_json_key = NULL; %s(j, it);" % _f,
        "%s/contract_shape_process_jwk" % _f, replace=["jwt_strcmp/contract_exact_jwt_strcmp"], stubs=JWKP_STUBS,
        defines=["VERIF_ALLOC_RECORD_FAIL"], flags=[], expect=["contract_shape_process_jwk\\.postcondition\\.1"], timeout=900))
P["C07"]["units"].append(
    U("C07.jwk_process_one", "jwk_process_one (libjwt/jwks.c)", JWKS_C, "contracts/jwks_c.h",
      "JWKS_TAKE_ADDRESSES; jwk_set_t *s; json_t *j; jwk_process_one(s, j);", "jwk_process_one/contract_C07_jwk_process_one",
      replace=["jwt_strcmp/contract_exact_jwt_strcmp", "process_octet/contract_C08_process_octet", "jwk_process_values/contract_shape_jwk_process_values"],
      stubs=LIBC + ["stubs/alloc.c", "stubs/jansson.c"], defines=["VERIF_TU_JWKS", "VERIF_ALLOC_RECORD_FAIL"], flags=[], object_bits=10,
      expect=["contract_C07_jwk_process_one\\.postcondition\\.3", "contract_shape_process_jwk\\.precondition"], timeout=900,
      assumed_contracts=["jwk_process_values/contract_shape_jwk_process_values"],
      replay={"driver": "replay/r_C17_jwks.c"}))
P["C17"]["units"].append(dict(P["C07"]["units"][-1], name="C17.jwk_process_one"))
P["C08"]["units"] += [
    U("C08.jwk_key_op_j", "jwk_key_op_j (libjwt/jwks.c)", JWKS_C, "contracts/jwks_c.h",
      "json_t *j; jwk_key_op_j(j);", "jwk_key_op_j/contract_shape_jwk_key_op_j",
      replace=["jwt_strcmp/contract_shape_jwt_strcmp"], stubs=LIBC + ["stubs/alloc.c", "stubs/jansson.c"], defines=["VERIF_TU_JWKS"], flags=[],
      expect=["contract_shape_jwk_key_op_j\\.postcondition\\.1", "contract_shape_jwt_strcmp\\.precondition"], timeout=300),
    U("C08.jwk_process_values", "jwk_process_values (libjwt/jwks.c)", JWKS_C, "contracts/jwks_c.h",
      "json_t *j; jwk_item_t *it; jwk_process_values(j, it);", "jwk_process_values/contract_C08_jwk_process_values",
      replace=["jwt_strcmp/contract_exact_jwt_strcmp", "jwk_key_op_j/contract_shape_jwk_key_op_j", "jwt_str_alg/contract_C02_jwt_str_alg"],
      stubs=LIBC + ["stubs/alloc.c", "stubs/jansson.c"], defines=["VERIF_TU_JWKS", "VERIF_ALLOC_RECORD_FAIL", "VERIF_STRLEN_RECORD", "VERIF_STRLEN_RECORD_ARG", "VERIF_STRCPY_MEASURED", "VJ_ARRAY_STATIC_ELEM", "PV_MAX_STR=0x200000000UL", "VJ_MAX_STR=0x200000000UL"], flags=["--conversion-check"], object_bits=10,
      replay={"driver": "replay/r_C07_kid.c"},
      loops={"jwk_process_values": [{"loop_id": 0, "vars": ["i", "j_op", "item"], "assigns": "i, j_op, item->key_ops, g_vj_elem, __CPROVER_object_whole(g_vj_elem_str)", "invariants": ["1 == 1"],
              "globals": {"g_vj_elem": "g_vj_elem", "g_vj_elem_str": "g_vj_elem_str"}}]},
      expect=["contract_C08_jwk_process_values\\.postcondition\\.6", "jwk_process_values\\.loop_invariant_step", "contract_C02_jwt_str_alg\\.precondition"], timeout=900),
]
P["C09"]["units"] += [dict(jwkp_unit("C07", "openssl_process_rsa"), name="C09.openssl_process_rsa"),
                      dict(P["C08"]["units"][0], name="C09.process_octet")]

P["C07"]["units"].append(
    U("C07.jwks_process", "jwks_process (libjwt/jwks.c)", JWKS_C, "contracts/jwks_c.h",
      "jwk_set_t *s; json_t *j; json_error_t *e; jwks_process(s, j, e);", "jwks_process/contract_C07_jwks_process",
      replace=["jwk_process_one/contract_rec_jwk_process_one", "jwks_item_add/contract_rec_jwks_item_add", "jwks_free/contract_rec_jwks_free"],
      assumed_contracts=["jwk_process_one/contract_rec_jwk_process_one", "jwks_item_add/contract_rec_jwks_item_add", "jwks_free/contract_rec_jwks_free"],
      stubs=LIBC + ["stubs/alloc.c", "stubs/jansson.c"], defines=["VERIF_TU_JWKS", "VERIF_ALLOC_RECORD_FAIL", "VJ_ARRAY_STATIC_ELEM"], flags=[], object_bits=10,
      loops={"jwks_process": [{"loop_id": 0, "vars": ["i", "j_item", "jwk_item", "jwk_set", "j_array"],
        "assigns": "i, j_item, jwk_item, jwk_set->error, SPEC_ERRMSG_FRAME(jwk_set), g_lib_fail, g_p1_calls, g_add_calls, g_p1_arg_k, g_p1_ret_k, g_add_item_k, g_vj_elem, __CPROVER_object_whole(g_vj_elem_str)",
        "invariants": ["i <= j_array->asize", "g_p1_calls == i", "g_add_calls <= g_p1_calls", "g_lib_fail == 0 || g_lib_fail == 1",
                       "g_lib_fail == 0 ==> g_add_calls == g_p1_calls",
                       "(g_lib_fail == 0 && g_seq_k < g_p1_calls) ==> (g_add_item_k == g_p1_ret_k && g_p1_ret_k != 0)",
                       "jwk_set->error_msg[255] == 0"],
        "decreases": "j_array->asize - i",
        "globals": {"g_lib_fail": "g_lib_fail", "g_p1_calls": "g_p1_calls", "g_add_calls": "g_add_calls", "g_p1_arg_k": "g_p1_arg_k", "g_p1_ret_k": "g_p1_ret_k",
                    "g_add_item_k": "g_add_item_k", "g_seq_k": "g_seq_k", "g_vj_elem": "g_vj_elem", "g_vj_elem_str": "g_vj_elem_str"}}]},
      loop_macro_headers=["contracts/spec.h"],
      expect=["contract_C07_jwks_process\\.postcondition\\.7", "jwks_process\\.loop_invariant_step", "contract_rec_jwk_process_one\\.precondition"], timeout=900,
      unwind_default=3))
for _fn, _body, _c in (("__jwks_load_strn", "jwk_set_t *s; const char *j; size_t n; int e; __jwks_load_strn(s, j, n, e);", "contract_C07___jwks_load_strn"),
                       ("jwks_load_fromfile", "jwk_set_t *s; const char *f; jwks_load_fromfile(s, f);", "contract_C07_jwks_load_fromfile"),
                       ("jwks_load_fromfp", "jwk_set_t *s; FILE *f; jwks_load_fromfp(s, f);", "contract_C07_jwks_load_fromfp")):
    P["C07"]["units"].append(U("C07.%s" % _fn, "%s -> jwks_new (libjwt/jwks.c)" % _fn, JWKS_C, "contracts/jwks_c.h", _body, "%s/%s" % (_fn, _c),
        replace=["jwks_process/contract_rec_jwks_process"], assumed_contracts=["jwks_process/contract_rec_jwks_process"],
        stubs=LIBC + ["stubs/alloc.c", "stubs/jansson.c"], defines=["VERIF_TU_JWKS", "VERIF_ALLOC_RECORD_FAIL"], flags=[],
        expect=[_c + "\\.postcondition\\.5", "contract_rec_jwks_process\\.precondition"], timeout=600))

# ---- accessors of jwks.c: what the application observes of an imported key (C08), error reporting (C14) ----
_GETTERS = [("C08", "jwks_item_is_private"), ("C14", "jwks_item_error"), ("C14", "jwks_item_error_msg"), ("C08", "jwks_item_curve"),
            ("C08", "jwks_item_kid"), ("C08", "jwks_item_alg"), ("C08", "jwks_item_kty"), ("C08", "jwks_item_use"), ("C08", "jwks_item_key_ops"),
            ("C08", "jwks_item_pem"), ("C08", "jwks_item_key_bits")]
def _acc(prop, fn, body, n=1):
    c = "contract_%s_%s" % (prop, fn)
    return U("%s.%s" % (prop, fn), "%s (libjwt/jwks.c)" % fn, JWKS_C, "contracts/jwks_c.h", body, "%s/%s" % (fn, c),
             stubs=LIBC, defines=["VERIF_TU_JWKS"], flags=[], expect=[c + "\\.postcondition\\.%d" % n], timeout=120)
ACCESSORS = [_acc(p, f, "const jwk_item_t *it; %s(it);" % f) for p, f in _GETTERS] + [
    _acc("C08", "jwks_item_key_oct", "const jwk_item_t *it; const unsigned char **b; size_t *l; jwks_item_key_oct(it, b, l);", 3),
    _acc("C14", "jwks_error", "const jwk_set_t *s; jwks_error(s);"),
    _acc("C14", "jwks_error_msg", "const jwk_set_t *s; jwks_error_msg(s);"),
    _acc("C14", "jwks_error_clear", "jwk_set_t *s; jwks_error_clear(s);", 2)]
for _u in ACCESSORS:
    P[_u["name"][:3]]["units"].append(_u)

# ---- the public forwarding wrappers of the loaders (C07): exact set / text / length reach the loader once ----
_LS = "__jwks_load_strn/contract_rec___jwks_load_strn"
def _wrap(fn, body, replace, n, defines=()):
    c = "contract_C07_" + fn
    rp = {"driver": "replay/r_C07_len.c", "args": ["fn=" + fn.split("_")[-1]]} if fn in ("jwks_load", "jwks_create") else None
    return U("C07." + fn, "%s (libjwt/jwks.c)" % fn, JWKS_C, "contracts/jwks_c.h", body, "%s/%s" % (fn, c), replace=replace, assumed_contracts=replace,
             stubs=LIBC, defines=["VERIF_TU_JWKS", "VERIF_STRLEN_RECORD"] + list(defines), flags=["--conversion-check"],
             expect=[c + "\\.postcondition\\.%d" % n, "contract_rec_.*\\.precondition" if replace == [_LS] else c + "\\.postcondition"], timeout=300, replay=rp)
P["C07"]["units"] += [
    _wrap("jwks_load_strn", "jwk_set_t *s; const char *j; size_t n; jwks_load_strn(s, j, n);", [_LS], 1),
    _wrap("jwks_load", "jwk_set_t *s; const char *j; jwks_load(s, j);", [_LS], 2),
    _wrap("jwks_create", "const char *j; jwks_create(j);", [_LS], 2),
    _wrap("jwks_create_strn", "const char *j; size_t n; jwks_create_strn(j, n);", [_LS], 1),
    _wrap("jwks_create_fromfile", "const char *f; jwks_create_fromfile(f);", ["jwks_load_fromfile/contract_rec_jwks_load_fromfile"], 1),
    _wrap("jwks_create_fromfp", "FILE *f; jwks_create_fromfp(f);", ["jwks_load_fromfp/contract_rec_jwks_load_fromfp"], 1),
]

# ---- C08 completeness: a well-formed JWK imports without error unless a library call failed or refused ----
for _f in ("openssl_process_rsa", "openssl_process_ec", "openssl_process_eddsa"):
    _c = "contract_C08complete_" + _f
    P["C08"]["units"].append(U("C08.%s.complete" % _f, "%s -> set_one_bn / set_one_octet / set_ec_pub_key / pctx_to_pem (libjwt/openssl/jwk-parse.c), well-formed JWK" % _f, JWKP,
        "contracts/jwk_parse_c.h", "json_t *j; jwk_item_t *it; %s(j, it);" % _f, "%s/%s" % (_f, _c), replace=["jwt_strcmp/contract_exact_jwt_strcmp"],
        stubs=JWKP_STUBS, defines=["VERIF_B64_TRACK", "VERIF_ALLOC_RECORD_FAIL", "VERIF_WELLFORMED"], flags=[],
        expect=[_c + "\\.postcondition\\.1"], timeout=900, replay={"driver": "replay/r_C08_ec.c"} if _f == "openssl_process_ec" else None))

# ---- the per-call token object (jwt.c) and the *_free of builders / checkers ----
_OBJ_STUBS = LIBC + ["stubs/alloc.c", "stubs/jansson.c"]
P["C17"]["units"] += [
    U("C17.jwt_new", "jwt_new (libjwt/jwt.c)", JWT_C, "contracts/jwt_obj_c.h", "jwt_new();", "jwt_new/contract_C17_jwt_new",
      stubs=_OBJ_STUBS, defines=["VERIF_TU_JWT"], flags=[], expect=["contract_C17_jwt_new\\.postcondition\\.2"], timeout=300),
    U("C17.jwt_free", "jwt_free (libjwt/jwt.c)", JWT_C, "contracts/jwt_obj_c.h", "jwt_t *j; jwt_free(j);", "jwt_free/contract_C17_jwt_free",
      stubs=_OBJ_STUBS, defines=["VERIF_TU_JWT"], flags=[], expect=["contract_C17_jwt_free\\.postcondition\\.1", "vj_release\\.assertion\\.1"], timeout=300)]

P["C14"]["units"].append(U("C14.jwt_get_alg", "jwt_get_alg (libjwt/jwt.c)", JWT_C, "contracts/jwt_obj_c.h", "const jwt_t *j; jwt_get_alg(j);", "jwt_get_alg/contract_C14_jwt_get_alg",
      stubs=_OBJ_STUBS, defines=["VERIF_TU_JWT"], flags=[], expect=["contract_C14_jwt_get_alg\\.postcondition\\.1"], timeout=300))
for _side in ("CHECKER", "BUILDER"):
    _fn = "jwt_%s_free" % _side.lower()
    P["C17"]["units"].append(U("C17." + _fn, _fn + " (libjwt/jwt-common.c)", common_tu(_side), "contracts/jwt_obj_c.h", "jwt_%s_t *c; %s(c);" % (_side.lower(), _fn),
        _fn + "/contract_C17_cmd_free", stubs=_OBJ_STUBS, defines=["VERIF_TU_" + _side], flags=[], expect=["contract_C17_cmd_free\\.postcondition\\.1"], timeout=300))

P["C12"]["units"] += [
    ops_unit("jwt_get_crypto_ops", "jwt_get_crypto_ops", "contract_C12_jwt_get_crypto_ops", "jwt_get_crypto_ops();"),
    ops_unit("jwt_get_crypto_ops_t", "jwt_get_crypto_ops_t", "contract_C12_jwt_get_crypto_ops_t", "jwt_get_crypto_ops_t();"),
    ops_unit("jwt_crypto_ops_supports_jwk", "jwt_crypto_ops_supports_jwk", "contract_C12_jwt_crypto_ops_supports_jwk", "jwt_crypto_ops_supports_jwk();")]
for _u in P["C12"]["units"][-3:]:
    _u["expect"] = [_u["enforce"].split("/")[1] + "\\.postcondition\\.1"]

# ---- C16: local (hence unbounded) shape contracts of the list primitives as jwks.c uses them ----
_C16S = LIBC + ["stubs/alloc.c", "stubs/jansson.c"]
P["C16"]["units"] += [
    U("C16.jwks_new", "jwks_new -> INIT_LIST_HEAD (libjwt/jwks.c, libjwt/ll.h)", JWKS_C, "contracts/jwks_c.h", "jwks_new();", "jwks_new/contract_C16_jwks_new",
      stubs=_C16S, defines=["VERIF_TU_JWKS"], flags=[], expect=["contract_C16_jwks_new\\.postcondition\\.1"], timeout=300),
    U("C16.jwks_item_add", "jwks_item_add -> list_add_tail -> list_insert (libjwt/jwks.c, libjwt/ll.h)", JWKS_C, "contracts/jwks_c.h",
      "jwk_set_t *s = malloc(sizeof(*s)); jwk_item_t *it = malloc(sizeof(*it)); __CPROVER_assume(s != NULL && it != NULL); "
      "if (nondet_bool()) { s->head.next = &s->head; s->head.prev = &s->head; } "
      "else { jwk_item_t *tail = malloc(sizeof(*tail)); __CPROVER_assume(tail != NULL); jwk_item_t *first = tail; "
      "if (nondet_bool()) { first = malloc(sizeof(*first)); __CPROVER_assume(first != NULL); } "
      "tail->node.next = &s->head; s->head.prev = &tail->node; s->head.next = &first->node; } "
      "jwks_item_add(s, it);", "jwks_item_add/contract_C16_jwks_item_add",
      stubs=_C16S, defines=["VERIF_TU_JWKS"], flags=[], expect=["contract_C16_jwks_item_add\\.postcondition\\.3"], timeout=300),
    U("C16.__item_free", "__item_free -> list_del -> list_join_nodes (libjwt/jwks.c, libjwt/ll.h)", JWKS_C, "contracts/jwks_c.h",
      "ITEM_FREE_TAKE_ADDRESSES; jwk_item_t *it = malloc(sizeof(*it)); __CPROVER_assume(it != NULL); "
      "if (nondet_bool()) { jwk_set_t *s = malloc(sizeof(*s)); __CPROVER_assume(s != NULL); g_nb_prev = &s->head; g_nb_next = &s->head; } "
      "else { jwk_item_t *a = malloc(sizeof(*a)), *b = malloc(sizeof(*b)); __CPROVER_assume(a != NULL && b != NULL); g_nb_prev = &a->node; g_nb_next = &b->node; } "
      "it->node.prev = g_nb_prev; it->node.next = g_nb_next; g_nb_prev->next = &it->node; g_nb_next->prev = &it->node; "
      "__item_free(it);", "__item_free/contract_C16___item_free",
      stubs=_C16S, defines=["VERIF_TU_JWKS"], flags=[], expect=["contract_C16___item_free\\.postcondition\\.3"], timeout=600),
]

# (an API-level bounded unit 'load a keyring of <= 1 key under allocation failure through the public entry points only' was tried for
# seed C16-B: the propositional reduction runs out of 12 GB; dropped -- DESIGN section 15)
_REC_DOERS = ["__getter/contract_rec___getter", "__setter/contract_rec___setter", "__deleter/contract_rec___deleter"]
for _w in ("header_get", "header_set", "claim_get", "claim_set"):
    P["C15"]["units"].append(U("C15.jwt_%s" % _w, "jwt_%s -> __run_it (libjwt/jwt-setget.c)" % _w, SETGET_C, "contracts/jwt_setget_c.h",
        "jwt_t *j; jwt_value_t *v; jwt_%s(j, v);" % _w, "jwt_%s/contract_C15_jwt_%s" % (_w, _w), replace=_REC_DOERS, assumed_contracts=_REC_DOERS,
        stubs=LIBC, flags=[], expect=["contract_C15_jwt_%s\\.postcondition\\.3" % _w, "contract_rec___[gs]etter\\.precondition"], timeout=300))
for _w in ("header_del", "claim_del"):
    P["C15"]["units"].append(U("C15.jwt_%s" % _w, "jwt_%s (libjwt/jwt-setget.c)" % _w, SETGET_C, "contracts/jwt_setget_c.h",
        "jwt_t *j; const char *f; jwt_%s(j, f);" % _w, "jwt_%s/contract_C15_jwt_%s" % (_w, _w), replace=_REC_DOERS, assumed_contracts=_REC_DOERS,
        stubs=LIBC, flags=[], expect=["contract_C15_jwt_%s\\.postcondition\\.2" % _w], timeout=300))


# ---- jwt-common.c: error accessors, callback registration, checker iss/sub/aud policy, builder header/claim wrappers ----
def _cmd_unit(prop, side, fn, cname, body, n, replace=(), **kw):
    pre = "jwt_%s" % side.lower()
    return U("%s.%s_%s" % (prop, pre, fn), "%s_%s (libjwt/jwt-common.c)" % (pre, fn), common_tu(side), "contracts/jwt_common_c.h", body % {"p": pre},
             "%s_%s/%s" % (pre, fn, cname), replace=list(replace), assumed_contracts=list(replace), stubs=kw.pop("stubs", LIBC), defines=["VERIF_TU_" + side], flags=[],
             expect=[cname + "\\.postcondition\\.%d" % n], timeout=300, **kw)
for _side in ("CHECKER", "BUILDER"):
    _t = "jwt_%s_t" % _side.lower()
    for _prop, _fn, _c, _body, _n in (
        ("C14", "error", "contract_C14_cmd_error", "const " + _t + " *c; %(p)s_error(c);", 1),
        ("C14", "error_msg", "contract_C14_cmd_error_msg", "const " + _t + " *c; %(p)s_error_msg(c);", 1),
        ("C13", "error_clear", "contract_C13_cmd_error_clear", _t + " *c; %(p)s_error_clear(c);", 1),
        ("C13", "setcb", "contract_C13_cmd_setcb", _t + " *c; jwt_callback_t cb; void *x; %(p)s_setcb(c, cb, x);", 4),
        ("C13", "getctx", "contract_C13_cmd_getctx", _t + " *c; %(p)s_getctx(c);", 1)):
        P[_prop]["units"].append(_cmd_unit(_prop, _side, _fn, _c, _body, _n))
P["C04"]["units"] += [
    _cmd_unit("C04", "CHECKER", "claim_set", "contract_C04_jwt_checker_claim_set", "jwt_checker_t *c; jwt_claims_t t; const char *v; %(p)s_claim_set(c, t, v);", 3,
              stubs=LIBC + ["stubs/doer_rec.c"]),
    _cmd_unit("C04", "CHECKER", "claim_del", "contract_C04_jwt_checker_claim_del", "jwt_checker_t *c; jwt_claims_t t; %(p)s_claim_del(c, t);", 3,
              stubs=LIBC + ["stubs/doer_rec.c"])]
for _w, _n in (("header_get", 3), ("header_set", 3), ("claim_get", 3), ("claim_set", 3)):
    P["C15"]["units"].append(_cmd_unit("C15", "BUILDER", _w, "contract_C15_jwt_builder_" + _w, "jwt_builder_t *b; jwt_value_t *v; %(p)s_" + _w + "(b, v);", _n, replace=_REC_DOERS))
for _w in ("header_del", "claim_del"):
    P["C15"]["units"].append(_cmd_unit("C15", "BUILDER", _w, "contract_C15_jwt_builder_" + _w, "jwt_builder_t *b; const char *f; %(p)s_" + _w + "(b, f);", 2, replace=_REC_DOERS))
# ---------------------------------------------------------------------------
# cross-listing: a unit decides a clause every property that depends on that function needs
# (modular verification: each property's list must contain every function between the
# property and the code that implements it)
def _find(name):
    for spec in P.values():
        for u in spec["units"]:
            if u["name"] == name:
                return u
    raise KeyError(name)
def share(prop, names):
    have = set(u["name"] for u in P[prop]["units"])
    for n in names:
        if n not in have:
            P[prop]["units"].append(_find(n))
P["C01"]["units"] += [
    U("C01.jwt_strcmp.shape", "jwt_strcmp (libjwt/jwt-memory.c), any two strings", "libjwt/jwt-memory.c", "contracts/jwt_c.h",
      "size_t n1, n2; __CPROVER_assume(n1 < 0x10000000 && n2 < 0x10000000); char *a = VS(n1), *b = VS(n2); jwt_strcmp(a, b);",
      "jwt_strcmp/contract_shape_jwt_strcmp", stubs=["stubs/libc.c", "stubs/ghost.c"], pre=[VS],
      loops={"jwt_strcmp": [{"loop_id": 0, "vars": ["i", "ret", "len1", "len2", "len_max"], "assigns": "i, ret",
                             "invariants": ["0 <= i && i <= len_max", "len_max == (len1 >= len2 ? len1 : len2)"], "decreases": "len_max - i"}]},
      expect=["jwt_strcmp\\.loop_invariant_step", "jwt_strcmp\\.loop_decreases"]),
    dict(_find("C11.jwt_base64uri_decode"), name="C01.jwt_base64uri_decode.shape", enforce="jwt_base64uri_decode/contract_shape_jwt_base64uri_decode", defines=["VERIF_TU_JWT"],
         expect=["jwt_base64uri_decode\\.loop_invariant_step", "contract_C11_base64_decode\\.precondition"]),
    dict(_find("C11.jwt_base64uri_encode"), name="C01.jwt_base64uri_encode.shape", enforce="jwt_base64uri_encode/contract_shape_jwt_base64uri_encode",
         expect=["jwt_base64uri_encode\\.loop_invariant_step", "contract_C11shape_base64_encode\\.precondition"]),
]
share("C02", ["C01.jwt_strcmp.shape", "C01.jwt_base64uri_decode.shape", "C01.jwt_base64uri_encode.shape"])
share("C09", ["C01.jwt_strcmp.shape", "C01.jwt_base64uri_decode.shape", "C01.jwt_base64uri_encode.shape"])
share("C08", ["C01.jwt_strcmp.shape"])
P["C02"]["units"].append(STRCMP_BOUNDED)
share("C01", ["C02.jwt_strcmp_exact", "C02.bounded.jwt_strcmp_N90"])
share("C03", ["C02.jwt_strcmp_exact", "C02.bounded.jwt_strcmp_N90", "C02.jwt_str_alg", "C02.jwt_parse_head", "C10.jwt_encode"])
share("C05", ["C10.jwt_encode", "TOP.jwt_builder_generate", "TOP.jwt_checker_verify", "C11.jwt_base64uri_encode", "C11.jwt_base64uri_decode",
              "C11.base64_encode.shape", "C11.base64_decode", "C11.finite.roundtrip3", "C01.openssl_verify_sha_pem", "C01.gnutls_verify_sha_pem"])
share("C06", ["C14.jwt_parse_head", "C14.jwt_parse_payload", "C11.jwt_base64uri_decode", "C11.base64_decode", "C11.finite.reject",
              "C01.all.jwt_verify_sig", "C01.all._verify_sha_hmac", "C01.jwt_verify_complete", "C01.openssl_verify_sha_pem", "C01.gnutls_verify_sha_pem",
              "C02.jwt_str_alg", "C02.jwt_strcmp_exact"])
share("C17", ["C17.jwt_builder_new", "C17.jwt_checker_new", "C05.jwt_ec_d2i", "C05.openssl_sign_sha_pem", "C05.gnutls_sign_sha_pem",
              "C01.openssl_verify_sha_pem", "C01.gnutls_verify_sha_pem", "C01.openssl_sign_sha_hmac", "C01.gnutls_sign_sha_hmac",
              "C08.process_octet", "C07.openssl_process_rsa", "C07.openssl_process_ec", "C07.openssl_process_eddsa", "C08.jwk_process_values",
              "C10.jwt_encode", "C11.jwt_base64uri_encode", "C11.jwt_base64uri_decode", "C15.__setter", "C15.__setter_json", "C15.__getter",
              "C14.jwt_parse_head", "C14.jwt_parse_payload", "TOP.jwt_checker_verify", "C06.bounded.jwt_parse_N12"])
P["C18"] = {"property": "C18", "level": "proof", "units": []}
share("C18", ["TOP.jwt_checker_verify", "TOP.jwt_builder_generate", "C01.all.jwt_sign", "C01.all._verify_sha_hmac", "C01.all.jwt_verify_sig",
              "C01.all.__check_hmac", "C01.all.__check_key_bits", "C01.jwt_verify_complete", "C01.all.__verify_config_post", "C04.__verify_claims",
              "C01.openssl_sign_sha_hmac", "C01.openssl_verify_sha_pem", "C05.openssl_sign_sha_pem", "C05.jwt_ec_d2i",
              "C01.gnutls_sign_sha_hmac", "C01.gnutls_verify_sha_pem", "C05.gnutls_sign_sha_pem", "C10.jwt_encode",
              "C14.jwt_parse_head", "C14.jwt_parse_payload", "C06.bounded.jwt_parse_N12", "C16.bounded.read_N8"])
share("C10", ["C15.jwt_claim_set", "C15.jwt_header_set", "C15.__setter"])
share("C17", ["C15.jwt_claim_set", "C15.jwt_header_set", "C10.jwt_head_setup", "C10.jwt_encode_str", "C17.jwt_malloc", "C17.__jwt_freemem", "C17.jwt_set_alloc"])
share("C04", ["C15.jwt_claim_get", "C06.jwt_base64uri_decode_to_json"])
share("C02", ["C20.jwt_verify.main"])
# what a callback can do to the token object is what these wrappers can do: they reach the JSON documents only (C19)
share("C19", ["C15.jwt_header_set", "C15.jwt_header_del", "C15.jwt_claim_set", "C15.jwt_claim_del", "C15.jwt_header_get", "C15.jwt_claim_get"])
share("C14", ["C15.__getter", "C15.__setter", "C15.__setter_json", "C15.__deleter"])
share("C06", ["C17.jwt_new", "C17.jwt_free"])
share("C13", ["C17.jwt_new", "C17.jwt_free"])
share("C07", ["C16.jwks_new", "C16.jwks_item_add", "C08.openssl_process_rsa.complete", "C08.openssl_process_ec.complete", "C08.openssl_process_eddsa.complete"])
share("C17", ["C16.__item_free", "C16.jwks_new", "C01.all.jwt_verify_sig", "C01.all._verify_sha_hmac", "C01.all.jwt_sign", "C01.jwt_verify_complete", "C07.jwks_process"])
share("C09", ["C08.jwk_process_values"])
share("C07", ["C08.jwk_process_values", "C08.jwk_key_op_j", "C08.process_octet", "C11.base64_decode", "C11.jwt_base64uri_decode", "C11.finite.reject"])
share("C08", ["C11.base64_decode", "C11.jwt_base64uri_decode"])

def main():
    for prop, spec in P.items():
        with open(os.path.join(HERE, prop + ".json"), "w") as f:
            json.dump(spec, f, indent=1)
    print("wrote", ", ".join(sorted(P)))

if __name__ == "__main__":
    main()
